(* LexOrder.v — order laws of the byte-lexicographic comparison [lex_cmp] and of [pair_cmp] (Base.v),
   and the splitting of strictly sorted key lists / grouped member lists into the
   Lt-block ++ Eq-block ++ Gt-block shape consumed by BinSearchProofs.find_range_spec. *)
From Coq Require Import List NArith Arith Lia Bool Sorted.
From PG Require Import Base Mapping Spec CacheWriter CacheReader BinSearchProofs.
Import ListNotations.

(* ------------------------------------------------------------------------- *)
(* lex_cmp                                                                    *)

Lemma lex_cmp_refl a : lex_cmp a a = Eq.
Proof. induction a as [|x a IH]; cbn [lex_cmp]; [reflexivity|]. rewrite N.compare_refl. exact IH. Qed.

Lemma lex_cmp_eq a : forall b, lex_cmp a b = Eq -> a = b.
Proof.
  induction a as [|x a IH]; intros [|y b] H; cbn [lex_cmp] in H; try discriminate; [reflexivity|].
  destruct (x ?= y) eqn:E; try discriminate.
  apply N.compare_eq_iff in E. subst y. f_equal. apply IH. exact H.
Qed.

Lemma lex_cmp_eq_iff a b : lex_cmp a b = Eq <-> a = b.
Proof. split; [apply lex_cmp_eq|intros ->; apply lex_cmp_refl]. Qed.

Lemma lex_cmp_antisym a : forall b, lex_cmp a b = CompOpp (lex_cmp b a).
Proof.
  induction a as [|x a IH]; intros [|y b]; cbn [lex_cmp]; try reflexivity.
  rewrite (N.compare_antisym x y). destruct (x ?= y); cbn [CompOpp]; [apply IH|reflexivity|reflexivity].
Qed.

Lemma lex_cmp_trans a : forall b c, lex_cmp a b = Lt -> lex_cmp b c = Lt -> lex_cmp a c = Lt.
Proof.
  induction a as [|x a IH]; intros [|y b] [|z c] H1 H2; cbn [lex_cmp] in *; try discriminate; try reflexivity.
  destruct (x ?= y) eqn:Exy; try discriminate.
  - apply N.compare_eq_iff in Exy. subst y.
    destruct (x ?= z); try discriminate; [eapply IH; eassumption|reflexivity].
  - destruct (y ?= z) eqn:Eyz; try discriminate.
    + apply N.compare_eq_iff in Eyz. subst z. rewrite Exy. reflexivity.
    + apply N.compare_lt_iff in Exy. apply N.compare_lt_iff in Eyz.
      assert (Hxz : (x < z)%N) by (eapply N.lt_trans; eassumption). apply N.compare_lt_iff in Hxz. rewrite Hxz. reflexivity.
Qed.

Lemma lex_cmp_gt_lt a b : lex_cmp a b = Gt <-> lex_cmp b a = Lt.
Proof.
  rewrite (lex_cmp_antisym a b). destruct (lex_cmp b a); cbn [CompOpp]; split; congruence.
Qed.

Lemma lex_cmp_trans_gt a b c : lex_cmp a b = Gt -> lex_cmp b c = Gt -> lex_cmp a c = Gt.
Proof. rewrite !lex_cmp_gt_lt. intros H1 H2. eapply lex_cmp_trans; eassumption. Qed.

(* str_eqb *)
Lemma str_eqb_eq a : forall b, str_eqb a b = true <-> a = b.
Proof.
  induction a as [|x a IH]; intros [|y b]; cbn [str_eqb]; split; intros H; try discriminate; try reflexivity.
  - apply andb_true_iff in H. destruct H as (H1 & H2). apply N.eqb_eq in H1. apply IH in H2. congruence.
  - inversion H; subst. rewrite N.eqb_refl. cbn [andb]. apply IH. reflexivity.
Qed.

Lemma str_eqb_refl a : str_eqb a a = true.
Proof. apply str_eqb_eq. reflexivity. Qed.

Lemma str_eqb_neq a b : str_eqb a b = false <-> a <> b.
Proof.
  split.
  - intros H E. apply str_eqb_eq in E. congruence.
  - intros H. destruct (str_eqb a b) eqn:E; [|reflexivity]. apply str_eqb_eq in E. contradiction.
Qed.

Lemma lex_cmp_eqb a b : lex_cmp a b = Eq <-> str_eqb a b = true.
Proof. rewrite lex_cmp_eq_iff, str_eqb_eq. tauto. Qed.

(* ------------------------------------------------------------------------- *)
(* pair_cmp                                                                   *)

Lemma pair_cmp_refl a : pair_cmp a a = Eq.
Proof. unfold pair_cmp. rewrite !lex_cmp_refl. reflexivity. Qed.

Lemma pair_cmp_eq a b : pair_cmp a b = Eq -> a = b.
Proof.
  unfold pair_cmp. destruct a as [a1 a2], b as [b1 b2]. cbn [fst snd].
  destruct (lex_cmp a1 b1) eqn:E; try discriminate.
  intros H. apply lex_cmp_eq in E. apply lex_cmp_eq in H. congruence.
Qed.

Lemma pair_cmp_eq_iff a b : pair_cmp a b = Eq <-> a = b.
Proof. split; [apply pair_cmp_eq|intros ->; apply pair_cmp_refl]. Qed.

Lemma pair_cmp_antisym a b : pair_cmp a b = CompOpp (pair_cmp b a).
Proof.
  unfold pair_cmp. rewrite (lex_cmp_antisym (fst a) (fst b)).
  destruct (lex_cmp (fst b) (fst a)); cbn [CompOpp]; [apply lex_cmp_antisym|reflexivity|reflexivity].
Qed.

Lemma pair_cmp_trans a b c : pair_cmp a b = Lt -> pair_cmp b c = Lt -> pair_cmp a c = Lt.
Proof.
  unfold pair_cmp. destruct a as [a1 a2], b as [b1 b2], c as [c1 c2]. cbn [fst snd].
  destruct (lex_cmp a1 b1) eqn:E1; try discriminate; intros H1;
  destruct (lex_cmp b1 c1) eqn:E2; try discriminate; intros H2.
  - apply lex_cmp_eq in E1. apply lex_cmp_eq in E2. subst. rewrite lex_cmp_refl.
    eapply lex_cmp_trans; eassumption.
  - apply lex_cmp_eq in E1. subst. rewrite E2. reflexivity.
  - apply lex_cmp_eq in E2. subst. rewrite E1. reflexivity.
  - rewrite (lex_cmp_trans _ _ _ E1 E2). reflexivity.
Qed.

Lemma pair_cmp_gt_lt a b : pair_cmp a b = Gt <-> pair_cmp b a = Lt.
Proof.
  rewrite (pair_cmp_antisym a b). destruct (pair_cmp b a); cbn [CompOpp]; split; congruence.
Qed.

Print Assumptions lex_cmp_refl.
Print Assumptions lex_cmp_eq.
Print Assumptions lex_cmp_antisym.
Print Assumptions lex_cmp_trans.
Print Assumptions str_eqb_eq.
Print Assumptions lex_cmp_eqb.
Print Assumptions pair_cmp_refl.
Print Assumptions pair_cmp_eq.
Print Assumptions pair_cmp_antisym.
Print Assumptions pair_cmp_trans.

(* ------------------------------------------------------------------------- *)
(* generic: a comparison function satisfying the four order laws              *)

Lemma StronglySorted_map {A B} (R : B -> B -> Prop) (key : A -> B) l :
  StronglySorted R (map key l) <-> StronglySorted (fun a b => R (key a) (key b)) l.
Proof.
  induction l as [|x l IH]; cbn [map]; split; intros H; try constructor.
  - apply IH. inversion H; assumption.
  - inversion H as [|? ? _ Hall]; subst. apply (proj1 (Forall_map _ _ _)) in Hall. exact Hall.
  - apply IH. inversion H; assumption.
  - inversion H as [|? ? _ Hall]; subst. apply (proj2 (Forall_map _ _ _)). exact Hall.
Qed.

(* StronglySorted <-> the index formulation *)
Definition strictly_sorted {K} (cmp : K -> K -> comparison) (d : K) (ks : list K) : Prop :=
  forall i j, (i < j)%nat -> (j < length ks)%nat -> cmp (nth i ks d) (nth j ks d) = Lt.

Lemma StronglySorted_strictly_sorted {K} (cmp : K -> K -> comparison) (d : K) ks :
  StronglySorted (fun a b => cmp a b = Lt) ks <-> strictly_sorted cmp d ks.
Proof.
  split.
  - intros H. induction H as [|k ks Hs IH Hall]; intros i j Hij Hj; cbn [length] in Hj; [lia|].
    destruct j as [|j]; [lia|]. destruct i as [|i]; cbn [nth].
    + apply (proj1 (Forall_nth _ ks) Hall). lia.
    + apply IH; lia.
  - induction ks as [|k ks IH]; intros H; constructor.
    + apply IH. intros i j Hij Hj. apply (H (S i) (S j)); cbn [length]; lia.
    + apply Forall_nth. intros i d' Hi. rewrite (nth_indep ks d' d Hi).
      apply (H O (S i)); cbn [length]; lia.
Qed.

Section Order.
Context {K : Type} (cmp : K -> K -> comparison).
Hypothesis cmp_eq : forall a b, cmp a b = Eq -> a = b.
Hypothesis cmp_antisym : forall a b, cmp a b = CompOpp (cmp b a).
Hypothesis cmp_trans : forall a b c, cmp a b = Lt -> cmp b c = Lt -> cmp a c = Lt.

Lemma cmp_refl_of_antisym a : cmp a a = Eq.
Proof. assert (H := cmp_antisym a a). destruct (cmp a a); cbn [CompOpp] in H; congruence. Qed.

Lemma cmp_gt_of_lt a b : cmp a b = Lt -> cmp b a = Gt.
Proof. intros H. rewrite cmp_antisym, H. reflexivity. Qed.

(* keyed version: the list elements carry their key *)
Theorem sorted_split_key {A} (key : A -> K) (t : K) (l : list A) :
  StronglySorted (fun a b => cmp (key a) (key b) = Lt) l ->
  exists lo eq hi, l = lo ++ eq ++ hi /\
    Forall (fun x => cmp (key x) t = Lt) lo /\
    Forall (fun x => cmp (key x) t = Eq) eq /\
    Forall (fun x => cmp (key x) t = Gt) hi /\
    (length eq <= 1)%nat.
Proof.
  intros H. induction H as [|x l Hs IH Hall].
  - exists [], [], []. repeat split; auto.
  - destruct (cmp (key x) t) eqn:E.
    + (* Eq: everything after x is greater *)
      assert (E' := E). apply cmp_eq in E'. exists [], [x], l. repeat split; auto.
      eapply Forall_impl; [|exact Hall]. intros y Hy. cbv beta in *. rewrite <- E'.
      apply cmp_gt_of_lt. exact Hy.
    + destruct IH as (lo & eq & hi & -> & Hlo & Heq & Hhi & Hlen).
      exists (x :: lo), eq, hi. repeat split; auto.
    + exists [], [], (x :: l). repeat split; auto.
      constructor; [exact E|].
      eapply Forall_impl; [|exact Hall]. intros y Hy. cbv beta in *.
      apply cmp_gt_of_lt. eapply cmp_trans; [|exact Hy].
      rewrite cmp_antisym, E. reflexivity.
Qed.

Theorem sorted_split (t : K) (ks : list K) :
  StronglySorted (fun a b => cmp a b = Lt) ks ->
  exists lo eq hi, ks = lo ++ eq ++ hi /\
    Forall (fun k => cmp k t = Lt) lo /\
    Forall (fun k => cmp k t = Eq) eq /\
    Forall (fun k => cmp k t = Gt) hi /\
    (length eq <= 1)%nat.
Proof. apply (sorted_split_key (fun k => k)). Qed.

(* in the form expected by BinSearchProofs *)
Corollary sorted_key_sorted3 {A} (key : A -> K) (t : K) (l : list A) :
  StronglySorted (fun a b => cmp (key a) (key b) = Lt) l ->
  sorted3 (fun x => cmp (key x) t) l.
Proof.
  intros H. destruct (sorted_split_key key t l H) as (lo & eq & hi & Hl & Hlo & Heq & Hhi & _).
  exists lo, eq, hi. auto.
Qed.

(* get-by-search on a strictly sorted keyed list: a present key is found at its own index,
   an absent key is not found *)
Theorem binary_search_sorted_found {A} (key : A -> K) (d : A) (l : list A) (t : K) (i : nat) :
  StronglySorted (fun a b => cmp (key a) (key b) = Lt) l ->
  (i < length l)%nat -> cmp (key (nth i l d)) t = Eq ->
  binary_search (fun x => cmp (key x) t) d l = Some i.
Proof.
  intros Hs Hi He.
  destruct (sorted_split_key key t l Hs) as (lo & eq & hi & Hl & Hlo & Heq & Hhi & Hlen).
  subst l.
  destruct (nth_blocks (fun x => cmp (key x) t) d lo eq hi Hlo Heq Hhi i Hi)
    as [(H1 & H2)|[(H1 & H2)|(H1 & H2)]]; [congruence| |congruence].
  destruct eq as [|x [|y eq']]; cbn [length] in *; try lia.
  assert (i = length lo) by lia. subst i.
  apply (binary_search_unique (fun x => cmp (key x) t) d _ lo x hi); auto.
  inversion Heq; assumption.
Qed.

Theorem binary_search_sorted_absent {A} (key : A -> K) (d : A) (l : list A) (t : K) :
  (forall x, In x l -> cmp (key x) t <> Eq) ->
  binary_search (fun x => cmp (key x) t) d l = None.
Proof. apply binary_search_none_gen. Qed.

(* ------------------------------------------------------------------------- *)
(* grouped lists: ms = concat (map snd groups), groups sorted by key           *)

Definition group_of {V} (t : K) (groups : list (K * list V)) : list V :=
  match find (fun g => is_eq (cmp (fst g) t)) groups with
  | Some g => snd g
  | None => []
  end.

Lemma group_of_all_gt {V} (t : K) (groups : list (K * list V)) :
  Forall (fun g => cmp (fst g) t = Gt) groups -> group_of t groups = [].
Proof.
  unfold group_of. intros H. induction H as [|g gs Hg _ IH]; cbn [find]; [reflexivity|].
  rewrite Hg. cbn [is_eq]. exact IH.
Qed.

Lemma group_of_none {V} (t : K) (groups : list (K * list V)) :
  (forall g, In g groups -> cmp (fst g) t <> Eq) -> group_of t groups = [].
Proof.
  unfold group_of. induction groups as [|g gs IH]; intros H; cbn [find]; [reflexivity|].
  destruct (cmp (fst g) t) eqn:E; cbn [is_eq].
  - exfalso. apply (H g); [left; reflexivity|exact E].
  - apply IH. intros g' Hg'. apply H. right. exact Hg'.
  - apply IH. intros g' Hg'. apply H. right. exact Hg'.
Qed.

(* with sorted (hence distinct) keys, the group of [t] is the group stored under the key equal to [t] *)
Lemma group_of_in {V} (t : K) (groups : list (K * list V)) k vs :
  StronglySorted (fun a b => cmp (fst a) (fst b) = Lt) groups ->
  In (k, vs) groups -> cmp k t = Eq -> group_of t groups = vs.
Proof.
  unfold group_of. intros Hs. induction Hs as [|g gs Hs IH Hall]; intros Hin He; [contradiction|].
  cbn [find]. destruct Hin as [->|Hin].
  - cbn [fst]. rewrite He. reflexivity.
  - destruct (cmp (fst g) t) eqn:E; cbn [is_eq]; [|apply IH; assumption|apply IH; assumption].
    exfalso. apply cmp_eq in E. apply cmp_eq in He.
    assert (Hlt := proj1 (Forall_forall _ gs) Hall _ Hin). cbn [fst] in Hlt.
    rewrite E, <- He in Hlt.
    assert (Hc := cmp_antisym k k). rewrite Hlt in Hc. discriminate.
Qed.

Lemma Forall_concat_groups {V} (P : V -> Prop) (Q : K -> Prop) (groups : list (K * list V)) :
  (forall k vs v, In (k, vs) groups -> In v vs -> Q k -> P v) ->
  Forall (fun g => Q (fst g)) groups ->
  Forall P (concat (map snd groups)).
Proof.
  intros H Hall. apply Forall_concat. apply Forall_map. apply Forall_forall.
  intros [k vs] Hin. cbn [snd]. apply Forall_forall. intros v Hv.
  apply (H k vs v Hin Hv). exact (proj1 (Forall_forall _ groups) Hall _ Hin).
Qed.

Theorem grouped_split {V} (g : V -> comparison) (t : K) (groups : list (K * list V)) :
  StronglySorted (fun a b => cmp (fst a) (fst b) = Lt) groups ->
  (forall k vs v, In (k, vs) groups -> In v vs -> g v = cmp k t) ->
  exists lo hi,
    concat (map snd groups) = lo ++ group_of t groups ++ hi /\
    Forall (fun v => g v = Lt) lo /\
    Forall (fun v => g v = Eq) (group_of t groups) /\
    Forall (fun v => g v = Gt) hi.
Proof.
  intros Hs. induction Hs as [|[k vs] gs Hs IH Hall]; intros Hg.
  - exists [], []. repeat split; constructor.
  - assert (Hg' : forall k vs v, In (k, vs) gs -> In v vs -> g v = cmp k t).
    { intros k' vs' v Hin Hv. apply (Hg k' vs' v); [right; exact Hin|exact Hv]. }
    assert (Hvs : Forall (fun v => g v = cmp k t) vs).
    { apply Forall_forall. intros v Hv. apply (Hg k vs v); [left; reflexivity|exact Hv]. }
    cbn [map concat snd].
    destruct (cmp k t) eqn:E.
    + (* this is the group *)
      assert (Hgo : group_of t ((k, vs) :: gs) = vs).
      { unfold group_of. cbn [find fst]. rewrite E. reflexivity. }
      rewrite Hgo. exists [], (concat (map snd gs)). repeat split; auto.
      apply cmp_eq in E. subst t.
      apply (Forall_concat_groups _ (fun k' => cmp k' k = Gt)).
      * intros k' vs' v Hin Hv Hk'. rewrite (Hg' k' vs' v Hin Hv). exact Hk'.
      * eapply Forall_impl; [|exact Hall]. intros g0 Hg0. cbn [fst] in Hg0.
        apply cmp_gt_of_lt. exact Hg0.
    + destruct (IH Hg') as (lo & hi & Hc & Hlo & Heq & Hhi).
      assert (Hgo : group_of t ((k, vs) :: gs) = group_of t gs).
      { unfold group_of. cbn [find fst]. rewrite E. reflexivity. }
      rewrite Hgo. exists (vs ++ lo), hi. repeat split; auto.
      * rewrite Hc. rewrite <- app_assoc. reflexivity.
      * apply Forall_app. split; assumption.
    + assert (Hgt : Forall (fun g0 : K * list V => cmp (fst g0) t = Gt) gs).
      { eapply Forall_impl; [|exact Hall]. intros g0 Hg0. cbn [fst] in Hg0.
        apply cmp_gt_of_lt. eapply cmp_trans; [|exact Hg0]. rewrite cmp_antisym, E. reflexivity. }
      assert (Hgo : group_of t ((k, vs) :: gs) = []).
      { apply group_of_all_gt. constructor; [exact E|exact Hgt]. }
      rewrite Hgo. exists [], (vs ++ concat (map snd gs)). repeat split; auto.
      apply Forall_app. split; [exact Hvs|].
      apply (Forall_concat_groups _ (fun k' => cmp k' t = Gt)).
      * intros k' vs' v Hin Hv Hk'. rewrite (Hg' k' vs' v Hin Hv). exact Hk'.
      * exact Hgt.
Qed.

(* the range search over the flattened groups returns exactly the group of the target key *)
Theorem find_range_grouped {V} (g : V -> comparison) (d : V) (t : K) (groups : list (K * list V)) :
  StronglySorted (fun a b => cmp (fst a) (fst b) = Lt) groups ->
  (forall k vs v, In (k, vs) groups -> In v vs -> g v = cmp k t) ->
  find_range g d (concat (map snd groups)) =
    match group_of t groups with [] => None | vs => Some vs end.
Proof.
  intros Hs Hg. destruct (grouped_split g t groups Hs Hg) as (lo & hi & Hc & Hlo & Heq & Hhi).
  rewrite (find_range_spec g d _ lo (group_of t groups) hi Hc Hlo Heq Hhi).
  destruct (group_of t groups); reflexivity.
Qed.

Corollary find_range_grouped_in {V} (g : V -> comparison) (d : V) (t : K) (groups : list (K * list V)) k vs :
  StronglySorted (fun a b => cmp (fst a) (fst b) = Lt) groups ->
  (forall k vs v, In (k, vs) groups -> In v vs -> g v = cmp k t) ->
  In (k, vs) groups -> cmp k t = Eq -> vs <> [] ->
  find_range g d (concat (map snd groups)) = Some vs.
Proof.
  intros Hs Hg Hin He Hne. rewrite (find_range_grouped g d t groups Hs Hg).
  rewrite (group_of_in t groups k vs Hs Hin He). destruct vs; [congruence|reflexivity].
Qed.

Corollary find_range_grouped_absent {V} (g : V -> comparison) (d : V) (t : K) (groups : list (K * list V)) :
  StronglySorted (fun a b => cmp (fst a) (fst b) = Lt) groups ->
  (forall k vs v, In (k, vs) groups -> In v vs -> g v = cmp k t) ->
  (forall gr, In gr groups -> cmp (fst gr) t <> Eq) ->
  find_range g d (concat (map snd groups)) = None.
Proof.
  intros Hs Hg Hno. rewrite (find_range_grouped g d t groups Hs Hg).
  rewrite (group_of_none t groups Hno). reflexivity.
Qed.

End Order.

Print Assumptions sorted_split_key.
Print Assumptions sorted_split.
Print Assumptions sorted_key_sorted3.
Print Assumptions binary_search_sorted_found.
Print Assumptions grouped_split.
Print Assumptions find_range_grouped.
Print Assumptions find_range_grouped_in.
Print Assumptions find_range_grouped_absent.

(* ------------------------------------------------------------------------- *)
(* instances for lex_cmp and pair_cmp                                          *)

Definition lex_sorted_split := sorted_split lex_cmp lex_cmp_eq lex_cmp_antisym lex_cmp_trans.
Definition lex_sorted_split_key {A} := @sorted_split_key _ lex_cmp lex_cmp_eq lex_cmp_antisym lex_cmp_trans A.
Definition lex_sorted_key_sorted3 {A} := @sorted_key_sorted3 _ lex_cmp lex_cmp_eq lex_cmp_antisym lex_cmp_trans A.
Definition lex_binary_search_sorted_found {A} :=
  @binary_search_sorted_found _ lex_cmp lex_cmp_eq lex_cmp_antisym lex_cmp_trans A.
Definition lex_grouped_split {V} := @grouped_split _ lex_cmp lex_cmp_eq lex_cmp_antisym lex_cmp_trans V.
Definition lex_find_range_grouped {V} := @find_range_grouped _ lex_cmp lex_cmp_eq lex_cmp_antisym lex_cmp_trans V.
Definition lex_find_range_grouped_in {V} :=
  @find_range_grouped_in _ lex_cmp lex_cmp_eq lex_cmp_antisym lex_cmp_trans V.
Definition lex_find_range_grouped_absent {V} :=
  @find_range_grouped_absent _ lex_cmp lex_cmp_eq lex_cmp_antisym lex_cmp_trans V.
Definition pair_sorted_split := sorted_split pair_cmp pair_cmp_eq pair_cmp_antisym pair_cmp_trans.
Definition pair_sorted_split_key {A} := @sorted_split_key _ pair_cmp pair_cmp_eq pair_cmp_antisym pair_cmp_trans A.
Definition pair_sorted_key_sorted3 {A} := @sorted_key_sorted3 _ pair_cmp pair_cmp_eq pair_cmp_antisym pair_cmp_trans A.

Check lex_sorted_split.
Check lex_find_range_grouped.
Print Assumptions lex_sorted_split.
Print Assumptions lex_find_range_grouped.
Print Assumptions pair_sorted_split.

(* ------------------------------------------------------------------------- *)
(* Examples                                                                   *)

Module LexOrderExamples.
Definition s (l : list nat) : list N := map N.of_nat l.
Definition ka := [97]%N.          (* "a"  *)
Definition kab := [97; 98]%N.     (* "ab" *)
Definition kb := [98]%N.          (* "b"  *)
Definition kc := [99]%N.          (* "c"  *)

Example ex_lex1 : lex_cmp ka kab = Lt /\ lex_cmp kab kb = Lt /\ lex_cmp ka kb = Lt.
Proof. vm_compute. auto. Qed.
Example ex_lex_trans : lex_cmp ka kb = Lt.
Proof. exact (lex_cmp_trans ka kab kb eq_refl eq_refl). Qed.
Example ex_lex_antisym : lex_cmp kb ka = Gt.
Proof. rewrite lex_cmp_antisym. reflexivity. Qed.
Example ex_pair : pair_cmp (ka, kb) (ka, kc) = Lt /\ pair_cmp (kab, ka) (ka, kc) = Gt.
Proof. vm_compute. auto. Qed.
Example ex_pair_trans : pair_cmp (ka, kb) (kb, ka) = Lt.
Proof. exact (pair_cmp_trans (ka, kb) (ka, kc) (kb, ka) eq_refl eq_refl). Qed.
Example ex_eqb : str_eqb kab kab = true /\ str_eqb kab kb = false.
Proof. vm_compute. auto. Qed.

Definition keys := [ka; kab; kb; kc].
Example ex_keys_sorted : StronglySorted (fun a b => lex_cmp a b = Lt) keys.
Proof. repeat constructor. Qed.
Example ex_split : exists lo eq hi, keys = lo ++ eq ++ hi /\
    Forall (fun k => lex_cmp k kb = Lt) lo /\ Forall (fun k => lex_cmp k kb = Eq) eq /\
    Forall (fun k => lex_cmp k kb = Gt) hi /\ (length eq <= 1)%nat.
Proof. exact (lex_sorted_split kb keys ex_keys_sorted). Qed.
Example ex_found : binary_search (fun k => lex_cmp k kb) [] keys = Some 2%nat.
Proof. exact (lex_binary_search_sorted_found (fun k => k) [] keys kb 2 ex_keys_sorted
          ltac:(cbn [keys length]; lia) eq_refl). Qed.

(* grouped members: (method name, list of member records (name, payload)) *)
Definition groups : list (list N * list (list N * N)) :=
  [(ka, [(ka, 1); (ka, 2)]); (kab, [(kab, 3)]); (kb, [(kb, 4); (kb, 5); (kb, 6)]); (kc, [(kc, 7)])]%N.
Definition members := concat (map snd groups).
Example ex_groups_sorted : StronglySorted (fun a b => lex_cmp (fst a) (fst b) = Lt) groups.
Proof. repeat constructor. Qed.
Lemma ex_groups_cmp t : forall k vs v, In (k, vs) groups -> In v vs -> lex_cmp (fst v) t = lex_cmp k t.
Proof.
  intros k vs v Hin Hv. cbn [groups In] in Hin.
  repeat (destruct Hin as [Hin|Hin];
          [inversion Hin; subst; cbn [In] in Hv;
           repeat (destruct Hv as [<-|Hv]; [reflexivity|]); contradiction|]).
  contradiction.
Qed.
Example ex_find_group : find_range (fun m => lex_cmp (fst m) kb) ([], 0%N) members = Some [(kb, 4); (kb, 5); (kb, 6)]%N.
Proof.
  exact (lex_find_range_grouped_in (fun m => lex_cmp (fst m) kb) ([], 0%N) kb groups kb _
           ex_groups_sorted (ex_groups_cmp kb) ltac:(cbn [groups In]; auto) eq_refl ltac:(discriminate)).
Qed.
Example ex_find_group_compute :
  find_range (fun m => lex_cmp (fst m) kb) ([], 0%N) members = Some [(kb, 4); (kb, 5); (kb, 6)]%N.
Proof. vm_compute. reflexivity. Qed.
Example ex_find_group_absent : find_range (fun m => lex_cmp (fst m) [98; 97]%N) ([], 0%N) members = None.
Proof.
  apply (lex_find_range_grouped_absent _ _ [98; 97]%N groups ex_groups_sorted (ex_groups_cmp _)).
  intros gr Hin. cbn [groups In] in Hin.
  repeat (destruct Hin as [<-|Hin]; [discriminate|]). contradiction.
Qed.
End LexOrderExamples.
