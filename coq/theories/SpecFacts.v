(* SpecFacts.v — the clauses of property C01 read off the specification: which original line
   an applicable entry maps to (the "ProGuard rule"), which entries apply, and the source-file rule. *)
From Coq Require Import Lia.
From PG Require Import Base Mapping Spec.

(* an entry built from a method record *)
Definition mk (cf : option (list N)) (ty orig obf args : list N) ocls lm rest : entry :=
  let '(s, e, os, oe) := entry_lines lm in
  {| e_obf := obf; e_start := s; e_end := e; e_os := os; e_oe := oe; e_ocls := ocls;
     e_file := cf; e_orig := orig; e_args := args; e_inlined := next_same_range lm rest |}.

(* no usable range: applies to every line, maps to line 0 *)
Lemma rule_no_range cf ty orig obf args ocls rest line :
  let e := mk cf ty orig obf args ocls None rest in
  entry_applies e line = true /\ entry_line e line = 0.
Proof. cbn. split; reflexivity. Qed.

(* range without original lines: identity (obfuscated line = original line) inside the range *)
Lemma rule_identity cf ty orig obf args ocls rest s e line :
  s <= line -> line <= e -> line < MAX64 ->
  let en := mk cf ty orig obf args ocls (Some {| lm_start := s; lm_end := e; lm_os := None; lm_oe := None |}) rest in
  entry_line en line = line.
Proof.
  intros Hs He Hm. cbn. unfold entry_line. cbn [e_oe e_os e_start].
  destruct (e =? s) eqn:E.
  - apply N.eqb_eq in E. lia.
  - replace (s + (line - s)) with line by lia. apply N.min_r. unfold MAX64 in *. lia.
Qed.

(* original start only (call-site line of an inlined frame): that line, whatever the obfuscated line *)
Lemma rule_call_site cf ty orig obf args ocls rest s e os line :
  let en := mk cf ty orig obf args ocls (Some {| lm_start := s; lm_end := e; lm_os := Some os; lm_oe := None |}) rest in
  entry_line en line = os.
Proof. reflexivity. Qed.

(* original range collapsed to a single line *)
Lemma rule_single_line cf ty orig obf args ocls rest s e os line :
  let en := mk cf ty orig obf args ocls (Some {| lm_start := s; lm_end := e; lm_os := Some os; lm_oe := Some os |}) rest in
  entry_line en line = os.
Proof. cbn. unfold entry_line. cbn [e_oe e_os]. rewrite N.eqb_refl. reflexivity. Qed.

(* range to range: offset from the start of the obfuscated range (saturating at 2^64-1) *)
Lemma rule_range_offset cf ty orig obf args ocls rest s e os oe line :
  oe <> os ->
  let en := mk cf ty orig obf args ocls (Some {| lm_start := s; lm_end := e; lm_os := Some os; lm_oe := Some oe |}) rest in
  entry_line en line = N.min MAX64 (os + (line - s)).
Proof.
  intros H. cbn. unfold entry_line. cbn [e_oe e_os e_start].
  replace (oe =? os) with false by (symmetry; apply N.eqb_neq; exact H). reflexivity.
Qed.

(* which entries apply: no usable end line, or start <= line <= end; inverted ranges never apply *)
Lemma applies_iff e line :
  entry_applies e line = true <-> (e_end e = 0 \/ (e_start e <= line /\ line <= e_end e)).
Proof.
  unfold entry_applies. rewrite Bool.negb_true_iff, Bool.andb_false_iff, Bool.orb_false_iff.
  rewrite !N.ltb_ge. split.
  - intros [H|[H1 H2]]; [left; lia|right; lia].
  - intros [H|[H1 H2]]; [left; lia|right; lia].
Qed.
Lemma inverted_never_applies e line : 0 < e_end e -> e_end e < e_start e -> entry_applies e line = false.
Proof.
  intros H0 H1. unfold entry_applies. apply Bool.negb_false_iff.
  replace (0 <? e_end e) with true by (symmetry; apply N.ltb_lt; exact H0). cbn [andb].
  apply Bool.orb_true_iff.
  destruct (N.lt_ge_cases line (e_start e)) as [Hl|Hl]; [left; apply N.ltb_lt; exact Hl|right; apply N.ltb_lt; lia].
Qed.

(* the source-file rule *)
Lemma file_rule b e file :
  entry_file b e file =
  match e_file e with
  | Some f => if str_eqb f synthetic then Some (outer_simple_name (entry_class b e)) else Some f
  | None => match e_ocls e with Some _ => None | None => file end
  end.
Proof. reflexivity. Qed.

(* frames come out in file order, one per applicable entry with that obfuscated name *)
Lemma Sline_shape rs c m line file b :
  block_of rs c = Some b ->
  Sline rs c m line file =
  map (fun e => (entry_class b e, e_orig e, entry_file b e file, entry_line e line))
      (filter (fun e => str_eqb (e_obf e) m && entry_applies e line) (entries None (b_body b))).
Proof.
  intros H. unfold Sline. rewrite H. induction (entries None (b_body b)) as [|e es IH]; [reflexivity|].
  cbn [flat_map filter]. destruct (str_eqb (e_obf e) m && entry_applies e line); cbn [app map]; rewrite IH; reflexivity.
Qed.
