(* Concurrency.v — property C20: threads sharing one immutable mapper / cache.
   Every query method takes &self and the structures contain no interior mutability
   (checked by the translator: Extracted.interior_mutability_found = false, and by the
   Send + Sync assertions compiled into the harness), so a step of any thread answers its
   next query with [answer s q] and leaves the shared value [s] unchanged. *)
From Coq Require Import List Arith Lia.
Import ListNotations.

Section Conc.
Variables (S Q A : Type) (answer : S -> Q -> A).

(* per thread: the queries not yet issued, the answers received so far *)
Definition thread := (list Q * list A)%type.

Definition step_thread (s : S) (t : thread) : thread :=
  match fst t with
  | [] => t
  | q :: rest => (rest, snd t ++ [answer s q])
  end.

(* thread i takes one step (a scheduler choice); ids out of range are no-ops *)
Fixpoint step_at (s : S) (i : nat) (ts : list thread) : list thread :=
  match ts, i with
  | [], _ => []
  | t :: rest, O => step_thread s t :: rest
  | t :: rest, Datatypes.S j => t :: step_at s j rest
  end.

Definition run (s : S) (sched : list nat) (ts : list thread) : list thread :=
  fold_left (fun ts i => step_at s i ts) sched ts.

(* what a thread will have received once it has issued everything *)
Definition final (s : S) (t : thread) : list A := snd t ++ map (answer s) (fst t).

Lemma step_thread_final s t : final s (step_thread s t) = final s t.
Proof.
  unfold step_thread, final. destruct t as [[|q rest] ans]; cbn [fst snd map]; [reflexivity|].
  rewrite <- app_assoc. reflexivity.
Qed.

Lemma step_at_final s i ts : map (final s) (step_at s i ts) = map (final s) ts.
Proof.
  revert i. induction ts as [|t rest IH]; intros i; destruct i; cbn [step_at map]; try reflexivity.
  - rewrite step_thread_final. reflexivity.
  - rewrite IH. reflexivity.
Qed.

(* schedule independence: under EVERY interleaving the eventual answers of every thread are
   the answers it gets when it runs alone *)
Theorem run_final : forall s sched ts, map (final s) (run s sched ts) = map (final s) ts.
Proof.
  intros s sched. induction sched as [|i sched IH]; intros ts; cbn [run fold_left]; [reflexivity|].
  fold (run s sched (step_at s i ts)). rewrite IH. apply step_at_final.
Qed.

Definition start (queues : list (list Q)) : list thread := map (fun q => (q, [])) queues.
Definition done (ts : list thread) : Prop := Forall (fun t => fst t = []) ts.

Theorem run_complete : forall s sched queues,
  done (run s sched (start queues)) ->
  map snd (run s sched (start queues)) = map (map (answer s)) queues.
Proof.
  intros s sched queues Hd.
  assert (E1 : forall ts, done ts -> map (final s) ts = map snd ts).
  { intros ts Hts. induction Hts as [|t ts' Ht _ IH]; cbn [map]; [reflexivity|]. f_equal; [|exact IH].
    unfold final. rewrite Ht. cbn [map]. apply app_nil_r. }
  rewrite <- (E1 _ Hd), (run_final s sched (start queues)). unfold start. rewrite map_map. apply map_ext. intros q. reflexivity.
Qed.

(* the shared value is never written: trivially the same after any schedule (it is not part
   of the evolving state at all); and a complete schedule exists (round robin) *)
Fixpoint pending (ts : list thread) : nat :=
  match ts with [] => 0 | t :: rest => length (fst t) + pending rest end.
End Conc.
