(* PropC10.v — property C10: version-1 cache files mean the same to every release that
   accepts them.  What is proved: (1) the guard re-checked against the regenerated Extracted.v on
   every run — the byte layout, the sentinel defaults and the magic of the current tree equal the
   pinned release's unless the format version differs; (2) any buffer whose version word differs
   from the reader's is rejected with the version error.  (3) with the pinned release's writer and reader modelled next to the current ones
   (Pinned.v: the by-params offsets of finding F1, the unchecked line arithmetic of finding F5, each
   exactly as the snapshot behaved), every file written by either writer from an in-domain mapping is
   answered by the pinned reader exactly as by the current reader, for every frame query and every
   line; the pinned writer's file differs from the current one only in the by-params offset words of
   its class rows, and it parses.  All other queries (class, method, parameters, signature) run the
   same code in both releases.  That the vendored pinned release itself behaves as its model is
   established by the cross-release run of the correspondence check (harness mode run-xver, which
   links the vendored pinned release and compares it with the current tree, which in turn is compared
   with the current model). *)
From PG Require Import Base Mapping CacheWriter CacheReader CacheStructDefs CacheBytesProofs CacheProofs Domain GuardFormat Pinned CrossRelease.
From PG.Gen Require Extracted.

Theorem C10_layout_or_version_bump :
  Extracted.cache_version <> pinned_version \/ layout_agrees.
Proof. exact guard_layout_or_version_bump. Qed.

Theorem C10_other_version_rejected : forall buf hdr rest,
  rd_words 6 buf = Some (hdr, rest) -> nth 0 hdr 0 = cache_magic -> nth 1 hdr 0 <> cache_version ->
  parse buf = PErr WrongVersion.
Proof. exact header_wrong_version. Qed.

(* every file the current writer produces carries the current version word *)
Theorem C10_written_version : forall s, nth 1 (header_words s) 0 = cache_version.
Proof. reflexivity. Qed.

(* files written by the current writer, read by the pinned reader: never a panic, same answer *)
Theorem C10_current_files_same_answers : forall rs cls m line file, dom32 rs = true ->
  c_remap_frame_lines_pinned (C rs) cls m line file = Ok (c_remap_frame_lines (C rs) cls m line file).
Proof. exact CrossRelease.C10_current_files_same_answers_any_line. Qed.

(* files written by the pinned writer: they parse, and both readers answer them identically *)
Theorem C10_pinned_files_parse : forall rs, struct_wf (write_struct rs) = true ->
  parse (ser (write_struct_pinned rs)) = POk (Cp rs).
Proof. exact CrossRelease.C10_pinned_files_parse. Qed.
Theorem C10_pinned_files_same_answers : forall rs cls m line file, dom32 rs = true ->
  c_remap_frame_lines_pinned (Cp rs) cls m line file = Ok (c_remap_frame_lines (Cp rs) cls m line file).
Proof. exact CrossRelease.C10_pinned_files_same_answers_any_line. Qed.

(* the two writers' files differ in nothing but the class rows (the by-params offsets of F1) *)
Theorem C10_writers_differ_in_class_rows_only : forall rs,
  cs_members (write_struct_pinned rs) = cs_members (write_struct rs) /\
  cs_byparams (write_struct_pinned rs) = cs_byparams (write_struct rs) /\
  cs_strings (write_struct_pinned rs) = cs_strings (write_struct rs).
Proof. intros rs. destruct (pinned_writer_sections rs) as (Hm & Hb & Hs & _). repeat split; assumption. Qed.

(* outside the domain the releases do differ (F5): the hypothesis is needed *)
Theorem C10_domain_needed : exists (b : list N) cls m line file,
  dom32 (recs b) = false /\
  c_remap_frame_lines_pinned (C (recs b)) cls m line file = Panic /\
  c_remap_frame_lines (C (recs b)) cls m line file = [].
Proof.
  exists map5, [97], [109], 0, None. exact CrossRelease.C10_dom32_needed.
Qed.

(* the COMPLETE writer of the pinned release (PinnedModel.v: F1 offsets, F2 header scan, F7 value-less
   sourceFile header — the function compared byte for byte with the vendored release by the check):
   whatever mapping bytes it is given, if its records are in the domain its file parses and is answered
   by the pinned reader exactly as by the current reader, for every frame query and every line *)
Theorem C10_snapshot_bytes_same_answers : forall b cls m line file, dom32 (recs_pinned b) = true ->
  c_remap_frame_lines_pinned (Cs (recs_pinned b)) cls m line file
  = Ok (c_remap_frame_lines (Cs (recs_pinned b)) cls m line file).
Proof. exact CrossRelease.C10_snapshot_bytes_same_answers. Qed.
Theorem C10_snapshot_bytes_parse : forall b, struct_wf (write_struct_snapshot (recs_pinned b)) = true ->
  parse (snapshot_write b) = POk (Cs (recs_pinned b)).
Proof. exact CrossRelease.C10_snapshot_bytes_parse. Qed.
