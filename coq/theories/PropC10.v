(* PropC10.v — property C10: version-1 cache files mean the same to every release that
   accepts them.  What is proved: (1) the guard re-checked against the regenerated Extracted.v on
   every run — the byte layout, the sentinel defaults and the magic of the current tree equal the
   pinned release's unless the format version differs; (2) any buffer whose version word differs
   from the reader's is rejected with the version error.  That the two releases' readers answer
   accepted files identically is established by the cross-release run of the correspondence
   check (harness mode run-xver, which links the vendored pinned release). *)
From PG Require Import Base CacheWriter CacheReader CacheBytesProofs GuardFormat.
From PG.Gen Require Extracted.

Theorem C10_layout_or_version_bump :
  Extracted.cache_version <> pinned_version \/ layout_agrees.
Proof. exact guard_layout_or_version_bump. Qed.

Theorem C10_other_version_rejected : forall buf hdr rest,
  rd_words 6 buf = Some (hdr, rest) -> nth 0 hdr 0 = cache_magic -> nth 1 hdr 0 <> cache_version ->
  parse buf = PErr WrongVersion.
Proof. exact header_wrong_version. Qed.

(* every file the current writer produces carries the current version word *)
Theorem C10_written_version : forall s, nth 1 (header_words s) 0 = cache_version.
Proof. reflexivity. Qed.
