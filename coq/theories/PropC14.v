(* PropC14.v — property C14: cache serialisation is a deterministic function of the mapping
   bytes.  Partial: in the model the writer is a Gallina function (its only hash containers are
   used for membership, output order comes from sorted association lists), so determinism is
   immediate; that the real process does not depend on hash seeds, threads or addresses is
   established by the byte-exact correspondence from 8 processes and 8 threads (sampled). *)
From PG Require Import Base Mapping CacheWriter CacheReader CacheStructDefs CacheBytesProofs.

(* the length of the output is the length implied by its own header *)
Theorem C14_length_implied_by_header : forall s, struct_wf s = true ->
  lenN (ser s) = implied_length (lenN (cs_classes s)) (lenN (cs_members s)) (lenN (cs_byparams s))
                                (lenN (cs_strings s)).
Proof. exact ser_length. Qed.

(* the output is a function of the mapping bytes alone *)
Theorem C14_function_of_bytes : forall b1 b2 : list N, b1 = b2 -> write_bytes b1 = write_bytes b2.
Proof. intros b1 b2 H. rewrite H. reflexivity. Qed.
