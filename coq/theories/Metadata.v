(* Metadata.v — model of ProguardMapping::{has_line_info, is_valid, summary}
   (src/mapping.rs), written as the loops are written. *)
From PG Require Import Base Mapping.

(* has_line_info: early return true *)
Fixpoint has_line_info_loop (its : list item) : bool :=
  match its with
  | [] => false
  | IOk (RMethod _ _ _ _ _ (Some _)) :: _ => true
  | _ :: r => has_line_info_loop r
  end.
Definition has_line_info (b : str) : bool := has_line_info_loop (items b).

(* is_valid: for record in iter().take(window) *)
Definition valid_window : nat := 50.   (* guarded against Extracted.is_valid_window in Guards.v *)
Fixpoint is_valid_loop (has_class : bool) (its : list item) : bool :=
  match its with
  | [] => false
  | IOk (RClass _ _) :: r => is_valid_loop true r
  | IOk (RField _ _ _) :: r => if has_class then true else is_valid_loop has_class r
  | IOk (RMethod _ _ _ _ _ _) :: r => if has_class then true else is_valid_loop has_class r
  | _ :: r => is_valid_loop has_class r
  end.
Definition is_valid (b : str) : bool := is_valid_loop false (firstn valid_window (items b)).

(* summary *)
Record summary := { s_compiler : option str; s_version : option str; s_min_api : option N;
                    s_classes : N; s_methods : N }.
Definition summary_init :=
  {| s_compiler := None; s_version := None; s_min_api := None; s_classes := 0; s_methods := 0 |}.
Definition k_compiler : str := [99;111;109;112;105;108;101;114].
Definition k_compiler_version : str := [99;111;109;112;105;108;101;114;95;118;101;114;115;105;111;110].
Definition k_min_api : str := [109;105;110;95;97;112;105].

Definition summary_step (s : summary) (it : item) : summary :=
  match it with
  | IOk (RHeader k v) =>
      if str_eqb k k_compiler then
        {| s_compiler := v; s_version := s_version s; s_min_api := s_min_api s; s_classes := s_classes s; s_methods := s_methods s |}
      else if str_eqb k k_compiler_version then
        {| s_compiler := s_compiler s; s_version := v; s_min_api := s_min_api s; s_classes := s_classes s; s_methods := s_methods s |}
      else if str_eqb k k_min_api then
        {| s_compiler := s_compiler s; s_version := s_version s;
           s_min_api := match v with Some x => parse_uint U32 x | None => None end;
           s_classes := s_classes s; s_methods := s_methods s |}
      else s
  | IOk (RClass _ _) =>
      {| s_compiler := s_compiler s; s_version := s_version s; s_min_api := s_min_api s;
         s_classes := s_classes s + 1; s_methods := s_methods s |}
  | IOk (RMethod _ _ _ _ _ _) =>
      {| s_compiler := s_compiler s; s_version := s_version s; s_min_api := s_min_api s;
         s_classes := s_classes s; s_methods := s_methods s + 1 |}
  | _ => s
  end.
Definition summarize (b : str) : summary := fold_left summary_step (items b) summary_init.
