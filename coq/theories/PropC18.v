(* PropC18.v — property C18: the mapping UUID is the version-5 UUID of the bytes in the
   namespace v5(DNS, "guardsquare.com").  Partial: that the bytes alone determine the identifier is
   trivial for a Gallina function; equality of the real uuid / sha1_smol code with this
   independent SHA-1 computation is established by the correspondence check (sampled). *)
From PG Require Import Base Uuid UuidProofs.

Theorem C18_definition : forall b, mapping_uuid b = uuid_v5 (uuid_v5 ns_dns guardsquare) b.
Proof. exact uuid_def. Qed.
(* 4f44f30f-24be-53d0-bab6-f47c7120ad6c *)
Theorem C18_namespace : ns_proguard = [79;68;243;15;36;190;83;208;186;182;244;124;113;32;173;108].
Proof. exact namespace_value. Qed.
Theorem C18_version_and_variant : forall ns name, exists b0 b1 b2 b3 b4 b5 b6 b7 b8 rest,
  uuid_v5 ns name = b0::b1::b2::b3::b4::b5::b6::b7::b8::rest /\ b6 / 16 = 5 /\ b8 / 64 = 2.
Proof. exact uuid_version_variant. Qed.
Theorem C18_sixteen_bytes : forall b, length (mapping_uuid b) = 16%nat /\ Forall (fun x => x < 256) (mapping_uuid b).
Proof. exact mapping_uuid_bytes. Qed.
