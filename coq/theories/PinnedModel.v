(* PinnedModel.v — the executable part of the pinned release's cache WRITER (finding F1: the by-params
   offset of a class row is the running MEMBER count), definitions only, so that it can be extracted
   and compared with the vendored pinned release even when a proof file does not build.  Also the pinned record parser (finding F2: the sourceFile
   header value is scanned across line terminators) and the pinned record step of the writer (finding F7: a
   `# sourceFile` header without value is ignored), so that `snapshot_write` is the complete cache writer of
   the pinned release.
   Pinned.v re-exports this file and proves the theorems about it. *)
From PG Require Import Base Mapping CacheWriter.

(* ---- the cache writer, parameterised by its two repaired pieces -------------------------- *)
(* [write_struct] of CacheWriter.v with the record step and the flattening as parameters;
   instantiated with the current pieces it IS [write_struct] (write_struct_with_current). *)
Fixpoint wrun_with (step : wstate -> record -> option record -> wstate) (st : wstate) (rs : list record) : wstate :=
  match rs with
  | [] => st
  | r :: rest => wrun_with step (step st r (hd_error rest)) rest
  end.

Definition write_struct_with
  (step : wstate -> record -> option record -> wstate)
  (flat : list (list N * cip) -> N -> N -> list classrec * list member * list member)
  (rs : list record) : cache_struct :=
  let st := wrun_with step wstate_init rs in
  let classes := flush st in
  let nm := fold_left (fun a c => u32 (a + c_mlen (cip_class (snd c)))) classes 0 in
  let np := fold_left (fun a c => u32 (a + c_plen (cip_class (snd c)))) classes 0 in
  let '(crs, ms, ps) := flat classes 0 0 in
  {| cs_num_members := nm; cs_num_byparams := np;
     cs_classes := crs; cs_members := ms; cs_byparams := ps;
     cs_strings := stab_bytes (w_tab st) |}.

(* CacheWriter.flatten with the one change *)
Fixpoint flatten_pinned (cs : list (list N * cip)) (nm np : N) : list classrec * list member * list member :=
  match cs with
  | [] => ([], [], [])
  | (_, c) :: r =>
      let ms := flat_map snd (cip_members c) in
      let ps := flat_map snd (cip_byparams c) in
      let cr := set_offs (cip_class c) nm nm in                       (* PINNED: nm, not np *)
      let '(crs, mss, pss) := flatten_pinned r (nm + lenN ms) (np + lenN ps) in
      (cr :: crs, ms ++ mss, ps ++ pss)
  end.

Definition write_struct_pinned (rs : list record) : cache_struct :=
  write_struct_with wstep flatten_pinned rs.


(* ---- F2: src/mapping.rs, parse_proguard_header of the snapshot -------------------------------- *)
(* Mapping.parse_header with the one change; then the callers, copied *)
Definition parse_header_pinned (l : list N) : option (record * list N) :=
  l <- strip_prefix [35] l ;;
  match strip_prefix source_file_prefix l with
  | Some l =>
      '(v, l) <- parse_until (fun c => c =? 34) l ;;                   (* PINNED: unbounded *)
      l <- strip_prefix [34;125] l ;;
      Some (RHeader source_file (Some v), drop_nl l)
  | None =>
      '(k, l) <- parse_until (fun c => (c =? 58) || is_nl c) l ;;
      '(v, l) <- match strip_prefix [58] l with
                 | Some l' => '(v, l'') <- parse_until is_nl l' ;; Some (Some v, l'')
                 | None => Some (None, l)
                 end ;;
      Some (RHeader (trim k) (option_map trim v), drop_nl l)
  end.

Definition dispatch_pinned (l : list N) : option (record * list N) :=
  if starts_with [35] l then parse_header_pinned l
  else if starts_with four_spaces l then parse_member l
  else parse_class l.

Definition parse_record_pinned (l0 : list N) : item * list N :=
  let l := drop_nl l0 in
  match dispatch_pinned l with
  | Some (r, rest) => (IOk r, rest)
  | None => let '(line, rest) := split_line l in (IErr line, rest)
  end.

Fixpoint items_fuel_pinned (f : nat) (l : list N) : list item :=
  match f with
  | O => []
  | S f' => match l with
            | [] => []
            | _ => let '(it, rest) := parse_record_pinned l in it :: items_fuel_pinned f' rest
            end
  end.
Definition items_pinned (l : list N) : list item := items_fuel_pinned (length l) l.
Definition recs_pinned (b : list N) : list record := ok_records (items_pinned b).


(* ---- F7: src/cache/raw.rs, the record loop of the snapshot ------------------------------------ *)
(* CacheWriter.wstep with the one change: a header without value matches no arm *)
Definition wstep_pinned (st : wstate) (r : record) (next : option record) : wstate :=
  match r with
  | RHeader _ None => st                                                (* PINNED: ignored *)
  | _ => wstep st r next
  end.

Definition write_struct_pinned7 (rs : list record) : cache_struct :=
  write_struct_with wstep_pinned flatten rs.

(* the writer of the snapshot had both F1 and F7 *)
Definition write_struct_snapshot (rs : list record) : cache_struct :=
  write_struct_with wstep_pinned flatten_pinned rs.


(* the complete pinned writer, from the bytes of a mapping to the bytes of its cache file *)
Definition snapshot_write (b : list N) : list N := ser (write_struct_snapshot (recs_pinned b)).
