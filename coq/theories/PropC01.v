(* PropC01.v — property C01: line-based retrace returns exactly the recorded call stack.
   Statements only; proofs in MapperProofs.v (mapper = spec), CacheProofs.v (cache = spec),
   IsolationProofs.v / ParserFacts.v (lifting to files). *)
From PG Require Import Base Mapping Spec Mapper CacheWriter CacheReader CacheStructDefs MappingProofs IsolationProofs MapperProofs ParserFacts CacheBytesProofs Domain WriterInv CacheProofs CacheLayout BridgeBlocks SpecFacts Roundtrip FileLevel OuterNameProofs.

(* mapper = specification, for every record list with non-empty original class names and
   positive end lines (both hold for what the parser yields from in-domain files) *)
Theorem C01_mapper : forall ix rs c m line file,
  wf_class_names rs = true -> wf_line_mappings rs = true ->
  m_remap_frame_lines (build ix rs) c m line file = Ok (Sline rs c m line file).
Proof. exact mapper_lines. Qed.

(* the same for the records of any mapping file: the line-mapping hypothesis is a theorem there *)
Theorem C01_mapper_file : forall ix (b : list N) c m line file,
  wf_class_names (recs b) = true ->
  m_remap_frame_lines (build ix (recs b)) c m line file = Ok (Sline (recs b) c m line file).
Proof. intros ix b c m line file H. apply mapper_lines; [exact H|apply recs_wf_line_mappings]. Qed.

(* cache = specification: the cache written from the records, read back from its bytes,
   answers every line query (every line number) exactly as the specification *)
Theorem C01_cache : forall rs c m line file, dom32 rs = true -> sizes_ok rs = true ->
  parse (write rs) = POk (C rs) /\
  c_remap_frame_lines (C rs) c m line file = Sline rs c m line file.
Proof.
  intros rs c m line file Hd Hs. split.
  - unfold write, C. apply parse_ser. apply cache_struct_wf; assumption.
  - apply cache_lines; assumption.
Qed.

(* the answer is the same with and without the parameter index *)
Theorem C01_index_irrelevant : forall rs c m line file,
  wf_class_names rs = true -> wf_line_mappings rs = true ->
  m_remap_frame_lines (build true rs) c m line file = m_remap_frame_lines (build false rs) c m line file.
Proof. exact mapper_index_irrelevant. Qed.

(* unknown class or method: no frames (read off the specification) *)
Theorem C01_unknown_class : forall rs c m line file, block_of rs c = None -> Sline rs c m line file = [].
Proof. intros rs c m line file H. unfold Sline. rewrite H. reflexivity. Qed.

(* independence of the line-terminator style and of blank / unparseable lines: the
   specification sees only the Ok-records, and those do not change *)
Theorem C01_terminator_style : forall A B nl nl' : list N,
  In nl [[10]; [13]; [13;10]] -> In nl' [[10]; [13]; [13;10]] ->
  recs (A ++ nl ++ B) = recs (A ++ nl' ++ B).
Proof. intros A B nl nl' H H'. rewrite !recs_isolation by assumption. reflexivity. Qed.

Theorem C01_noise_line : forall A X B nl1 nl2 : list N,
  In nl1 [[10]; [13]; [13;10]] -> In nl2 [[10]; [13]; [13;10]] -> recs X = [] ->
  recs (A ++ nl1 ++ X ++ nl2 ++ B) = recs (A ++ nl1 ++ B).
Proof.
  intros A X B nl1 nl2 H1 H2 HX.
  rewrite (recs_isolation A (X ++ nl2 ++ B) nl1 H1), (recs_isolation X B nl2 H2), HX.
  rewrite (recs_isolation A B nl1 H1). reflexivity.
Qed.

(* what the specification says, clause by clause (the "ProGuard rule" of the property statement):
   one frame per applicable entry with that obfuscated name, in file order *)
Theorem C01_spec_shape : forall rs c m line file b, block_of rs c = Some b ->
  Sline rs c m line file =
  map (fun e => (entry_class b e, e_orig e, entry_file b e file, entry_line e line))
      (filter (fun e => str_eqb (e_obf e) m && entry_applies e line) (entries None (b_body b))).
Proof. exact Sline_shape. Qed.
(* an entry applies iff it has no usable end line or start <= line <= end (inverted ranges never apply) *)
Theorem C01_spec_applies : forall e line,
  entry_applies e line = true <-> (e_end e = 0 \/ (e_start e <= line /\ line <= e_end e)).
Proof. exact applies_iff. Qed.
(* range-to-range offset, saturating at 2^64-1 *)
Theorem C01_spec_range_offset : forall cf ty orig obf args ocls rest s e os oe line, oe <> os ->
  entry_line (mk cf ty orig obf args ocls (Some {| lm_start := s; lm_end := e; lm_os := Some os; lm_oe := Some oe |}) rest) line
  = N.min MAX64 (os + (line - s)).
Proof. exact rule_range_offset. Qed.

(* whole files: a file printed from grammar lines, with any mix of LF / CR / CRLF terminators and any
   blank or unparseable lines in between, has exactly the records of its grammar lines — so the
   answer depends on neither *)
Theorem C01_file_records : forall f, wf_file f = true -> recs (print_file f) = map record_of (file_lines f).
Proof. exact recs_print_file_lines. Qed.
Theorem C01_file_independent : forall f1 f2 c m line file,
  wf_file f1 = true -> wf_file f2 = true -> file_lines f1 = file_lines f2 ->
  Sline (recs (print_file f1)) c m line file = Sline (recs (print_file f2)) c m line file.
Proof. intros f1 f2 c m line file H1 H2 H. exact (Sline_file_independent f1 f2 H1 H2 H c m line file). Qed.

(* the order of distinctly named class blocks is irrelevant *)
Theorem C01_block_order_irrelevant : forall bs1 bs2,
  bodies_class_free bs1 -> bodies_class_free bs2 -> NoDup (map b_obf bs1) -> Permutation.Permutation bs1 bs2 ->
  (forall c, Sclass (unblocks bs1) c = Sclass (unblocks bs2) c) /\
  (forall c m, Smethod (unblocks bs1) c m = Smethod (unblocks bs2) c m) /\
  (forall c m line file, Sline (unblocks bs1) c m line file = Sline (unblocks bs2) c m line file) /\
  (forall c m p, Sparams (unblocks bs1) c m p = Sparams (unblocks bs2) c m p).
Proof. exact C01_block_order. Qed.

(* the file name of a frame whose class has the synthetic-class source file ("R8$$SyntheticClass"): for
   EVERY class name it is the piece after the last '.' and before the first '$' of that piece — one of
   exactly four shapes — and never contains a separator; empty when that piece starts with '$' *)
Theorem C01_synthetic_file_shapes : forall s,
  (exists p q r, s = p ++ 46 :: q ++ 36 :: r /\ ~ In 46 q /\ ~ In 36 q /\ ~ In 46 r /\ outer_simple_name s = q) \/
  (exists p q, s = p ++ 46 :: q /\ ~ In 46 q /\ ~ In 36 q /\ outer_simple_name s = q) \/
  (exists q r, s = q ++ 36 :: r /\ ~ In 46 q /\ ~ In 36 q /\ ~ In 46 r /\ outer_simple_name s = q) \/
  (~ In 46 s /\ ~ In 36 s /\ outer_simple_name s = s).
Proof.
  intros s. destruct (outer_simple_name_shapes s) as
    [(p & q & r & E & H1 & H2 & H3)|[(p & q & E & H1 & H2)|[(q & r & E & H1 & H2 & H3)|(H1 & H2)]]].
  - left. exists p, q, r. subst s. repeat split; try assumption. exact (outer_simple_name_pkg_dollar p q r H1 H2 H3).
  - right; left. exists p, q. subst s. repeat split; try assumption. exact (outer_simple_name_pkg_plain p q H1 H2).
  - right; right; left. exists q, r. subst s. repeat split; try assumption. exact (outer_simple_name_nopkg_dollar q r H1 H2 H3).
  - right; right; right. repeat split; try assumption. exact (outer_simple_name_nopkg_plain s H1 H2).
Qed.
Theorem C01_synthetic_file_no_separator : forall s,
  ~ In 46 (outer_simple_name s) /\ ~ In 36 (outer_simple_name s).
Proof. exact outer_simple_name_no_separator. Qed.
Theorem C01_synthetic_file_dollar_first : forall p r,
  ~ In 46 r -> outer_simple_name (p ++ 46 :: 36 :: r) = [].
Proof. exact outer_simple_name_dollar_first. Qed.

Check C01_mapper : forall ix rs c m line file,
  wf_class_names rs = true -> wf_line_mappings rs = true ->
  m_remap_frame_lines (build ix rs) c m line file = Ok (Sline rs c m line file).
Check C01_mapper_file : forall ix (b : list N) c m line file,
  wf_class_names (recs b) = true ->
  m_remap_frame_lines (build ix (recs b)) c m line file = Ok (Sline (recs b) c m line file).
