From PG Require Import Base Spec Stacktrace.
From PG.Gen Require Extracted.
Lemma guard_synthetic : Extracted.synthetic_file_names = [synthetic].
Proof. reflexivity. Qed.
Lemma guard_caused_by : Extracted.cause_prefixes = [caused_by].
Proof. reflexivity. Qed.
