From PG Require Import Base Spec Stacktrace GuardParser.
From PG.Gen Require Extracted.
Lemma guard_synthetic : agrees Extracted.synthetic_file_names [synthetic].
Proof. first [reflexivity | exact I]. Qed.
Lemma guard_caused_by : agrees Extracted.cause_prefixes [caused_by].
Proof. first [reflexivity | exact I]. Qed.
