(* PropC20.v — property C20: mapper and cache are shareable across threads and answer as if
   queried alone.  Partial by nature: Send/Sync are decided by rustc (the harness contains the
   static assertions), data races in unsafe dependencies and the memory model are outside any
   Gallina model; what is proved is schedule independence of read-only queries. *)
From Coq Require Import List.
From PG Require Import Concurrency GuardConc.
From PG.Gen Require Extracted.

(* under every interleaving, every thread eventually holds exactly the answers it gets alone *)
Theorem C20_schedule_independent : forall (S Q A : Type) (answer : S -> Q -> A) s sched queues,
  done Q A (run S Q A answer s sched (start Q A queues)) ->
  map snd (run S Q A answer s sched (start Q A queues)) = map (map (answer s)) queues.
Proof. exact run_complete. Qed.

(* and at any intermediate point: answers so far ++ answers still to come = answers alone *)
Theorem C20_any_prefix : forall (S Q A : Type) (answer : S -> Q -> A) s sched ts,
  map (final S Q A answer s) (run S Q A answer s sched ts) = map (final S Q A answer s) ts.
Proof. exact run_final. Qed.

(* the premise of the model: no interior mutability in the library sources (translator scan) *)
Theorem C20_no_interior_mutability : Extracted.interior_mutability_found = false.
Proof. exact guard_no_interior_mutability. Qed.
