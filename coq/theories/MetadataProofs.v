(* MetadataProofs.v — ProguardMapping::{has_line_info, is_valid, summary} (Metadata.v, written as the
   Rust loops are written) equal simple declarative folds over the COMPLETE record stream [items b]. *)
From PG Require Import Base Mapping Metadata.
From Coq Require Import Lia.

(* ------------------------------------------------------------------ *)
(* str_eqb decides equality (local copy: keeps this file independent)  *)
(* ------------------------------------------------------------------ *)
Lemma md_str_eqb_eq : forall a b, str_eqb a b = true <-> a = b.
Proof.
  induction a as [|x a IH]; intros [|y b]; cbn [str_eqb]; split; intros H;
    try reflexivity; try discriminate.
  - apply andb_true_iff in H. destruct H as [H1 H2].
    apply N.eqb_eq in H1. apply IH in H2. subst. reflexivity.
  - injection H as -> ->. rewrite N.eqb_refl. cbn [andb]. apply IH. reflexivity.
Qed.

(* ------------------------------------------------------------------ *)
(* has_line_info                                                       *)
(* ------------------------------------------------------------------ *)
Definition method_with_lines (it : item) : bool :=
  match it with IOk (RMethod _ _ _ _ _ (Some _)) => true | _ => false end.

Lemma has_line_info_loop_existsb : forall its,
  has_line_info_loop its = existsb method_with_lines its.
Proof.
  induction its as [|it r IH]; [reflexivity|].
  cbn [has_line_info_loop existsb].
  destruct it as [[k v|o ob|ty o ob|ty o ob args oc [lm|]]|e];
    cbn [method_with_lines orb]; try exact IH; reflexivity.
Qed.

Theorem has_line_info_spec : forall b,
  has_line_info b = existsb method_with_lines (items b).
Proof. intros b. unfold has_line_info. apply has_line_info_loop_existsb. Qed.
Print Assumptions has_line_info_spec.

(* "true exactly when some method record anywhere carries a line mapping" *)
Corollary has_line_info_iff : forall b,
  has_line_info b = true <->
  exists ty o ob args oc lm, In (IOk (RMethod ty o ob args oc (Some lm))) (items b).
Proof.
  intros b. rewrite has_line_info_spec, existsb_exists. split.
  - intros [it [Hin Hm]].
    destruct it as [[k v|o ob|ty o ob|ty o ob args oc [lm|]]|e]; try discriminate.
    exists ty, o, ob, args, oc, lm. exact Hin.
  - intros [ty [o [ob [args [oc [lm Hin]]]]]]. eexists. split; [exact Hin|reflexivity].
Qed.
Print Assumptions has_line_info_iff.

(* "    1:1:void a():3 -> b\n" after a class line: a method with a line mapping *)
Definition ex_with_lines : str :=
  [65;32;45;62;32;66;58;10;
   32;32;32;32;49;58;49;58;118;111;105;100;32;97;40;41;58;51;32;45;62;32;98;10].
(* "A -> B:\n    void a() -> b\n": a method without line mapping *)
Definition ex_without_lines : str :=
  [65;32;45;62;32;66;58;10;
   32;32;32;32;118;111;105;100;32;97;40;41;32;45;62;32;98;10].
Example has_line_info_ex_true :
  has_line_info ex_with_lines = true /\ existsb method_with_lines (items ex_with_lines) = true.
Proof. vm_compute. split; reflexivity. Qed.
Example has_line_info_ex_false :
  has_line_info ex_without_lines = false /\ length (items ex_without_lines) = 2%nat.
Proof. vm_compute. split; reflexivity. Qed.

(* ------------------------------------------------------------------ *)
(* summary                                                             *)
(* ------------------------------------------------------------------ *)
Definition is_class (it : item) : bool :=
  match it with IOk (RClass _ _) => true | _ => false end.
Definition is_method (it : item) : bool :=
  match it with IOk (RMethod _ _ _ _ _ _) => true | _ => false end.

(* the value of the last header with key k in the stream: None if there is no such header *)
Definition last_header_step (k : list N) (acc : option (option (list N))) (it : item)
  : option (option (list N)) :=
  match it with
  | IOk (RHeader k' v) => if str_eqb k' k then Some v else acc
  | _ => acc
  end.
Definition last_header (k : list N) (its : list item) : option (option (list N)) :=
  fold_left (last_header_step k) its None.

Lemma keys_distinct :
  str_eqb k_compiler k_compiler_version = false /\
  str_eqb k_compiler k_min_api = false /\
  str_eqb k_compiler_version k_min_api = false /\
  str_eqb k_compiler_version k_compiler = false /\
  str_eqb k_min_api k_compiler = false /\
  str_eqb k_min_api k_compiler_version = false.
Proof. vm_compute. repeat split. Qed.

(* the key test of summary_step: at most one of the three branches fires *)
Lemma key_cases : forall k,
  (k = k_compiler /\ str_eqb k k_compiler = true /\
     str_eqb k k_compiler_version = false /\ str_eqb k k_min_api = false) \/
  (k = k_compiler_version /\ str_eqb k k_compiler = false /\
     str_eqb k k_compiler_version = true /\ str_eqb k k_min_api = false) \/
  (k = k_min_api /\ str_eqb k k_compiler = false /\
     str_eqb k k_compiler_version = false /\ str_eqb k k_min_api = true) \/
  (str_eqb k k_compiler = false /\
     str_eqb k k_compiler_version = false /\ str_eqb k k_min_api = false).
Proof.
  intros k. destruct keys_distinct as [D1 [D2 [D3 [D4 [D5 D6]]]]].
  destruct (str_eqb k k_compiler) eqn:E1.
  { apply md_str_eqb_eq in E1. subst k. left. repeat split; assumption. }
  destruct (str_eqb k k_compiler_version) eqn:E2.
  { apply md_str_eqb_eq in E2. subst k. right; left. repeat split; assumption. }
  destruct (str_eqb k k_min_api) eqn:E3.
  { apply md_str_eqb_eq in E3. subst k. right; right; left. repeat split; assumption. }
  right; right; right. repeat split.
Qed.

(* counters *)
Lemma fold_classes : forall its s,
  s_classes (fold_left summary_step its s) = s_classes s + N.of_nat (length (filter is_class its)).
Proof.
  induction its as [|it r IH]; intros s.
  - cbn [fold_left filter length]. change (N.of_nat 0) with 0. lia.
  - cbn [fold_left filter]. rewrite IH.
    destruct it as [[k v|o ob|ty o ob|ty o ob args oc lm]|e];
      cbn [summary_step is_class s_classes length]; try reflexivity.
    + destruct (key_cases k) as [[_ [E1 [E2 E3]]]|[[_ [E1 [E2 E3]]]|[[_ [E1 [E2 E3]]]|[E1 [E2 E3]]]]];
        rewrite E1, ?E2, ?E3; cbn [s_classes]; reflexivity.
    + rewrite Nat2N.inj_succ. lia.
Qed.

Lemma fold_methods : forall its s,
  s_methods (fold_left summary_step its s) = s_methods s + N.of_nat (length (filter is_method its)).
Proof.
  induction its as [|it r IH]; intros s.
  - cbn [fold_left filter length]. change (N.of_nat 0) with 0. lia.
  - cbn [fold_left filter]. rewrite IH.
    destruct it as [[k v|o ob|ty o ob|ty o ob args oc lm]|e];
      cbn [summary_step is_method s_methods length]; try reflexivity.
    + destruct (key_cases k) as [[_ [E1 [E2 E3]]]|[[_ [E1 [E2 E3]]]|[[_ [E1 [E2 E3]]]|[E1 [E2 E3]]]]];
        rewrite E1, ?E2, ?E3; cbn [s_methods]; reflexivity.
    + rewrite Nat2N.inj_succ. lia.
Qed.

Definition or_default {A} (o : option A) (d : A) : A := match o with Some v => v | None => d end.

(* last-wins header fields: generalised over the loop state [s], the fold state [acc] and
   the value [d] the field had before any header with that key was seen *)
Lemma fold_compiler : forall its s acc d,
  s_compiler s = or_default acc d ->
  s_compiler (fold_left summary_step its s)
  = or_default (fold_left (last_header_step k_compiler) its acc) d.
Proof.
  induction its as [|it r IH]; intros s acc d H; [exact H|].
  cbn [fold_left]. apply IH.
  destruct it as [[k v|o ob|ty o ob|ty o ob args oc lm]|e];
    cbn [summary_step last_header_step s_compiler]; try exact H.
  destruct (key_cases k) as [[_ [E1 [E2 E3]]]|[[_ [E1 [E2 E3]]]|[[_ [E1 [E2 E3]]]|[E1 [E2 E3]]]]];
    rewrite E1, ?E2, ?E3; cbn [s_compiler or_default]; try exact H; reflexivity.
Qed.

Lemma fold_version : forall its s acc d,
  s_version s = or_default acc d ->
  s_version (fold_left summary_step its s)
  = or_default (fold_left (last_header_step k_compiler_version) its acc) d.
Proof.
  induction its as [|it r IH]; intros s acc d H; [exact H|].
  cbn [fold_left]. apply IH.
  destruct it as [[k v|o ob|ty o ob|ty o ob args oc lm]|e];
    cbn [summary_step last_header_step s_version]; try exact H.
  destruct (key_cases k) as [[_ [E1 [E2 E3]]]|[[_ [E1 [E2 E3]]]|[[_ [E1 [E2 E3]]]|[E1 [E2 E3]]]]];
    rewrite E1, ?E2, ?E3; cbn [s_version or_default]; try exact H; reflexivity.
Qed.

Definition api_of (v : option (list N)) : option N :=
  match v with Some x => parse_uint U32 x | None => None end.

Lemma fold_min_api : forall its s acc d,
  s_min_api s = or_default (option_map api_of acc) d ->
  s_min_api (fold_left summary_step its s)
  = or_default (option_map api_of (fold_left (last_header_step k_min_api) its acc)) d.
Proof.
  induction its as [|it r IH]; intros s acc d H; [exact H|].
  cbn [fold_left]. apply IH.
  destruct it as [[k v|o ob|ty o ob|ty o ob args oc lm]|e];
    cbn [summary_step last_header_step s_min_api]; try exact H.
  destruct (key_cases k) as [[_ [E1 [E2 E3]]]|[[_ [E1 [E2 E3]]]|[[_ [E1 [E2 E3]]]|[E1 [E2 E3]]]]];
    rewrite E1, ?E2, ?E3; cbn [s_min_api or_default option_map api_of]; try exact H; reflexivity.
Qed.

Theorem summary_spec : forall b, let s := summarize b in
  s_classes s = N.of_nat (length (filter is_class (items b))) /\
  s_methods s = N.of_nat (length (filter is_method (items b))) /\
  s_compiler s = (match last_header k_compiler (items b) with Some v => v | None => None end) /\
  s_version s = (match last_header k_compiler_version (items b) with Some v => v | None => None end) /\
  s_min_api s = (match last_header k_min_api (items b) with
                 | Some (Some x) => parse_uint U32 x | _ => None end).
Proof.
  intros b s. subst s. unfold summarize, last_header.
  repeat split.
  - rewrite fold_classes. cbn [summary_init s_classes]. lia.
  - rewrite fold_methods. cbn [summary_init s_methods]. lia.
  - rewrite (fold_compiler (items b) summary_init None None) by reflexivity. reflexivity.
  - rewrite (fold_version (items b) summary_init None None) by reflexivity. reflexivity.
  - rewrite (fold_min_api (items b) summary_init None None) by reflexivity.
    destruct (fold_left (last_header_step k_min_api) (items b) None) as [[x|]|]; reflexivity.
Qed.
Print Assumptions summary_spec.

(* last_header really is "the last header with key k": characterisation by a split of the stream *)
Definition is_header_with (k : list N) (it : item) : bool :=
  match it with IOk (RHeader k' _) => str_eqb k' k | _ => false end.

Lemma last_header_step_skip : forall k its acc,
  forallb (fun it => negb (is_header_with k it)) its = true ->
  fold_left (last_header_step k) its acc = acc.
Proof.
  induction its as [|it r IH]; intros acc H; [reflexivity|].
  cbn [forallb] in H. apply andb_true_iff in H. destruct H as [H1 H2].
  cbn [fold_left]. rewrite IH by exact H2.
  destruct it as [[k' v|o ob|ty o ob|ty o ob args oc lm]|e]; cbn [last_header_step]; try reflexivity.
  cbn [is_header_with] in H1. apply negb_true_iff in H1. rewrite H1. reflexivity.
Qed.

Lemma last_header_none : forall k its,
  last_header k its = None <-> forallb (fun it => negb (is_header_with k it)) its = true.
Proof.
  intros k its. unfold last_header. split.
  - assert (G : forall its acc, fold_left (last_header_step k) its acc = None ->
                 forallb (fun it => negb (is_header_with k it)) its = true).
    { clear its. induction its as [|it r IH]; intros acc H; [reflexivity|].
      cbn [fold_left] in H. cbn [forallb]. rewrite (IH _ H), andb_true_r.
      destruct (is_header_with k it) eqn:E; [|reflexivity]. exfalso.
      destruct it as [[k' v|o ob|ty o ob|ty o ob args oc lm]|e]; cbn [is_header_with] in E; try discriminate.
      cbn [last_header_step] in H. rewrite E in H.
      pose proof (IH _ H) as F.
      rewrite last_header_step_skip in H by exact F. discriminate. }
    apply G.
  - intros H. apply last_header_step_skip. exact H.
Qed.

Lemma last_header_some : forall k its v,
  last_header k its = Some v <->
  exists pre post, its = pre ++ IOk (RHeader k v) :: post /\
                   forallb (fun it => negb (is_header_with k it)) post = true.
Proof.
  intros k its v. unfold last_header. split.
  - assert (G : forall its acc, fold_left (last_header_step k) its acc = Some v ->
                 (acc = Some v /\ forallb (fun it => negb (is_header_with k it)) its = true) \/
                 exists pre post, its = pre ++ IOk (RHeader k v) :: post /\
                   forallb (fun it => negb (is_header_with k it)) post = true).
    { clear its. induction its as [|it r IH]; intros acc H.
      - left. split; [exact H|reflexivity].
      - cbn [fold_left] in H. destruct (IH _ H) as [[Ha Hf]|[pre [post [Hr Hf]]]].
        + destruct (is_header_with k it) eqn:E.
          * destruct it as [[k' v'|o ob|ty o ob|ty o ob args oc lm]|e];
              cbn [is_header_with] in E; try discriminate.
            cbn [last_header_step] in Ha. rewrite E in Ha. injection Ha as ->.
            apply md_str_eqb_eq in E. subst k'.
            right. exists [], r. split; [reflexivity|exact Hf].
          * left. cbn [forallb]. rewrite E, Hf. split; [|reflexivity].
            destruct it as [[k' v'|o ob|ty o ob|ty o ob args oc lm]|e];
              cbn [last_header_step] in Ha; try exact Ha.
            cbn [is_header_with] in E. rewrite E in Ha. exact Ha.
        + right. exists (it :: pre), post. split; [rewrite Hr; reflexivity|exact Hf]. }
    intros H. destruct (G _ _ H) as [[Ha _]|R]; [discriminate|exact R].
  - intros [pre [post [-> Hf]]]. rewrite fold_left_app. cbn [fold_left last_header_step].
    replace (str_eqb k k) with true by (symmetry; apply md_str_eqb_eq; reflexivity).
    apply last_header_step_skip. exact Hf.
Qed.
Print Assumptions last_header_some.

(* "# compiler: R8\n# min_api: 21\n# compiler_version: 1.2\n# min_api: x\nA -> B:\n    void a() -> b\nC -> D:\n"
   min_api is reset to None by the later unparsable header *)
Definition ex_summary : str :=
  [35;32;99;111;109;112;105;108;101;114;58;32;82;56;10;
   35;32;109;105;110;95;97;112;105;58;32;50;49;10;
   35;32;99;111;109;112;105;108;101;114;95;118;101;114;115;105;111;110;58;32;49;46;50;10;
   35;32;109;105;110;95;97;112;105;58;32;120;10;
   65;32;45;62;32;66;58;10;
   32;32;32;32;118;111;105;100;32;97;40;41;32;45;62;32;98;10;
   67;32;45;62;32;68;58;10].
Example summary_ex :
  summarize ex_summary =
  {| s_compiler := Some [82;56]; s_version := Some [49;46;50]; s_min_api := None;
     s_classes := 2; s_methods := 1 |} /\
  last_header k_min_api (items ex_summary) = Some (Some [120]) /\
  last_header k_compiler (items ex_summary) = Some (Some [82;56]) /\
  length (filter is_class (items ex_summary)) = 2%nat.
Proof. vm_compute. repeat split. Qed.
(* the same without the last min_api header: the value parses *)
Example summary_ex_min_api :
  s_min_api (summarize (firstn 54 ex_summary)) = Some 21.
Proof. vm_compute. reflexivity. Qed.

(* ------------------------------------------------------------------ *)
(* is_valid                                                            *)
(* ------------------------------------------------------------------ *)
Lemma valid_window_50 : valid_window = 50%nat.
Proof. reflexivity. Qed.

Definition is_member_rec (it : item) : bool :=
  match it with
  | IOk (RField _ _ _) => true
  | IOk (RMethod _ _ _ _ _ _) => true
  | _ => false
  end.

(* two-state scan: before the first class record / after it *)
Fixpoint class_then_member (its : list item) : bool :=
  match its with
  | [] => false
  | it :: r => if is_class it then existsb is_member_rec r else class_then_member r
  end.

Lemma is_valid_loop_true : forall its, is_valid_loop true its = existsb is_member_rec its.
Proof.
  induction its as [|it r IH]; [reflexivity|].
  cbn [is_valid_loop existsb].
  destruct it as [[k v|o ob|ty o ob|ty o ob args oc lm]|e]; cbn [is_member_rec orb];
    try exact IH; reflexivity.
Qed.

Lemma is_valid_loop_false : forall its, is_valid_loop false its = class_then_member its.
Proof.
  induction its as [|it r IH]; [reflexivity|].
  cbn [is_valid_loop class_then_member].
  destruct it as [[k v|o ob|ty o ob|ty o ob args oc lm]|e]; cbn [is_class];
    try exact IH. apply is_valid_loop_true.
Qed.

Theorem is_valid_scan : forall b,
  is_valid b = class_then_member (firstn 50 (items b)).
Proof. intros b. unfold is_valid. rewrite valid_window_50. apply is_valid_loop_false. Qed.
Print Assumptions is_valid_scan.

Lemma class_then_member_iff : forall its,
  class_then_member its = true <->
  exists pre c mid m post,
    its = pre ++ c :: mid ++ m :: post /\ is_class c = true /\ is_member_rec m = true.
Proof.
  intros its. split.
  - induction its as [|it r IH]; intros H; [discriminate|].
    cbn [class_then_member] in H. destruct (is_class it) eqn:E.
    + apply existsb_exists in H. destruct H as [m [Hin Hm]].
      apply in_split in Hin. destruct Hin as [mid [post ->]].
      exists [], it, mid, m, post. repeat split; assumption.
    + destruct (IH H) as [pre [c [mid [m [post [-> [Hc Hm]]]]]]].
      exists (it :: pre), c, mid, m, post. repeat split; assumption.
  - intros [pre [c [mid [m [post [-> [Hc Hm]]]]]]].
    assert (Hex : forall l, existsb is_member_rec (l ++ m :: post) = true).
    { intros l. rewrite existsb_app. cbn [existsb]. rewrite Hm.
      cbn [orb]. apply orb_true_r. }
    induction pre as [|a pre IH].
    + cbn [app class_then_member]. rewrite Hc. apply Hex.
    + cbn [app class_then_member]. destruct (is_class a); [|exact IH].
      replace (pre ++ c :: mid ++ m :: post) with ((pre ++ c :: mid) ++ m :: post)
        by (rewrite <- app_assoc; reflexivity).
      apply Hex.
Qed.

Theorem is_valid_spec : forall b,
  is_valid b = true <->
  exists pre c mid m post,
    firstn valid_window (items b) = pre ++ c :: mid ++ m :: post /\
    is_class c = true /\ is_member_rec m = true.
Proof.
  intros b. unfold is_valid. rewrite is_valid_loop_false. apply class_then_member_iff.
Qed.
Print Assumptions is_valid_spec.

Example is_valid_ex_true : is_valid ex_without_lines = true.
Proof. vm_compute. reflexivity. Qed.
Example is_valid_ex_witness :
  firstn valid_window (items ex_without_lines)
  = [] ++ IOk (RClass [65] [66]) :: [] ++ IOk (RMethod [118;111;105;100] [97] [98] [] None None) :: [].
Proof. vm_compute. reflexivity. Qed.
(* member first, class afterwards: not valid *)
Example is_valid_ex_false :
  is_valid (skipn 8 ex_without_lines ++ firstn 8 ex_without_lines) = false /\
  length (items (skipn 8 ex_without_lines ++ firstn 8 ex_without_lines)) = 2%nat.
Proof. vm_compute. split; reflexivity. Qed.
(* the window: 50 error lines push the class/member pair out of sight *)
Example is_valid_ex_window :
  is_valid (concat (repeat [120;10] 50) ++ ex_without_lines) = false /\
  is_valid (concat (repeat [120;10] 48) ++ ex_without_lines) = true.
Proof. vm_compute. split; reflexivity. Qed.
