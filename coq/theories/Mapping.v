(* Mapping.v — model of src/mapping.rs: the slice-based record parser, the record
   iterator and ProguardRecord::try_parse.  Shaped like the Rust code: every
   sub-parser threads the remaining slice. *)
From PG Require Import Base.

Record line_mapping := { lm_start : N; lm_end : N; lm_os : option N; lm_oe : option N }.
Inductive record :=
| RHeader (key : str) (value : option str)
| RClass (orig obf : str)
| RField (ty orig obf : str)
| RMethod (ty orig obf args : str) (ocls : option str) (lm : option line_mapping).

Inductive item := IOk (r : record) | IErr (line : str).

(* parse_until: position(predicate) + split_at + from_utf8 *)
Definition parse_until (p : byte -> bool) (l : str) : option (str * str) :=
  let '(a, b) := span p l in if utf8_valid a then Some (a, b) else None.

Definition head_is_nl (l : str) : bool :=
  match l with x :: _ => is_nl x | [] => false end.

Definition parse_until_no_newline (p : byte -> bool) (l : str) : option (str * str) :=
  '(a, b) <- parse_until (fun c => is_nl c || p c) l ;;
  if head_is_nl b then None else Some (a, b).

Definition parse_usize (l : str) : option (N * str) :=
  let '(a, b) := span (fun c => negb (is_numeric c)) l in
  if utf8_valid a then v <- parse_uint U64 a ;; Some (v, b) else None.

(* SOURCE_FILE_PREFIX of mapping.rs; guarded against Extracted.v in Guards.v *)
Definition source_file_prefix : str :=
  [32;123;34;105;100;34;58;34;115;111;117;114;99;101;70;105;108;101;34;44;34;102;105;108;101;78;97;109;101;34;58;34].
Definition source_file : str := [115;111;117;114;99;101;70;105;108;101].
Definition arrow : str := [32;45;62;32].
Definition four_spaces : str := [32;32;32;32].

Definition parse_header (l : str) : option (record * str) :=
  l <- strip_prefix [35] l ;;
  match strip_prefix source_file_prefix l with
  | Some l =>
      '(v, l) <- parse_until_no_newline (fun c => c =? 34) l ;;
      l <- strip_prefix [34;125] l ;;
      Some (RHeader source_file (Some v), drop_nl l)
  | None =>
      '(k, l) <- parse_until (fun c => (c =? 58) || is_nl c) l ;;
      '(v, l) <- match strip_prefix [58] l with
                 | Some l' => '(v, l'') <- parse_until is_nl l' ;; Some (Some v, l'')
                 | None => Some (None, l)
                 end ;;
      Some (RHeader (trim k) (option_map trim v), drop_nl l)
  end.

(* original.rsplitn(2, '.'): (before the last dot, after the last dot) *)
Fixpoint split_last_dot (acc : str) (l : str) : option (str * str) :=
  match l with
  | [] => None
  | c :: r =>
      match split_last_dot (acc ++ [c]) r with
      | Some x => Some x
      | None => if c =? 46 then Some (acc, r) else None
      end
  end.

Definition opt_colon_usize (enabled : bool) (l : str) : option (option N * str) :=
  if enabled then
    match strip_prefix [58] l with
    | Some l' => '(v, l'') <- parse_usize l' ;; Some (Some v, l'')
    | None => Some (None, l)
    end
  else Some (None, l).

Definition mk_line_mapping (startline endline os oe : option N) : option line_mapping :=
  match startline, endline with
  | Some s, Some e => if (0 <? s) && (0 <? e)
                      then Some {| lm_start := s; lm_end := e; lm_os := os; lm_oe := oe |}
                      else None
  | _, _ => None
  end.

Definition is_some {A} (o : option A) : bool := match o with Some _ => true | None => false end.

Definition parse_member (l : str) : option (record * str) :=
  l <- strip_prefix four_spaces l ;;
  let '(startline, l) := match parse_usize l with
                         | Some (v, l') => (Some v, l')
                         | None => (None, l)
                         end in
  '(endline, l) <- match startline with
                   | Some _ => l <- strip_prefix [58] l ;;
                               '(e, l) <- parse_usize l ;;
                               l <- strip_prefix [58] l ;;
                               Some (Some e, l)
                   | None => Some (None, l)
                   end ;;
  '(ty, l) <- parse_until_no_newline (fun c => c =? 32) l ;;
  l <- strip_prefix [32] l ;;
  '(original, l) <- parse_until_no_newline (fun c => (c =? 32) || (c =? 40)) l ;;
  '(arguments, l) <- match strip_prefix [40] l with
                     | Some l' => '(a, l'') <- parse_until_no_newline (fun c => c =? 41) l' ;;
                                  l'' <- strip_prefix [41] l'' ;;
                                  Some (Some a, l'')
                     | None => Some (None, l)
                     end ;;
  '(os, l) <- opt_colon_usize (is_some arguments) l ;;
  '(oe, l) <- opt_colon_usize (is_some os) l ;;
  l <- strip_prefix arrow l ;;
  '(obf, l) <- parse_until is_nl l ;;
  match arguments with
  | Some args =>
      let '(ocls, orig) := match split_last_dot [] original with
                           | Some (c, o) => (Some c, o)
                           | None => (None, original)
                           end in
      Some (RMethod ty orig obf args ocls (mk_line_mapping startline endline os oe), drop_nl l)
  | None => Some (RField ty original obf, drop_nl l)
  end.

Definition parse_class (l : str) : option (record * str) :=
  '(o, l) <- parse_until_no_newline (fun c => c =? 32) l ;;
  l <- strip_prefix arrow l ;;
  '(ob, l) <- parse_until_no_newline (fun c => c =? 58) l ;;
  l <- strip_prefix [58] l ;;
  Some (RClass o ob, drop_nl l).

(* split_line: the line including its first terminator byte *)
Definition split_line (l : str) : str * str :=
  let '(a, b) := span is_nl l in
  match b with
  | x :: b' => (a ++ [x], b')
  | [] => (a, [])
  end.

Definition dispatch (l : str) : option (record * str) :=
  if starts_with [35] l then parse_header l
  else if starts_with four_spaces l then parse_member l
  else parse_class l.

(* parse_proguard_record *)
Definition parse_record (l0 : str) : item * str :=
  let l := drop_nl l0 in
  match dispatch l with
  | Some (r, rest) => (IOk r, rest)
  | None => let '(line, rest) := split_line l in (IErr line, rest)
  end.

(* ProguardRecordIter: fuel = input length; never exhausted (MappingProofs.items_fuel_enough) *)
Fixpoint items_fuel (f : nat) (l : str) : list item :=
  match f with
  | O => []
  | S f' => match l with
            | [] => []
            | _ => let '(it, rest) := parse_record l in it :: items_fuel f' rest
            end
  end.
Definition items (l : str) : list item := items_fuel (length l) l.

Definition ok_records (its : list item) : list record :=
  flat_map (fun i => match i with IOk r => [r] | IErr _ => [] end) its.
Definition recs (b : str) : list record := ok_records (items b).

(* ProguardRecord::try_parse *)
Definition try_parse (l : str) : item :=
  match parse_record l with
  | (IErr e, _) => IErr e
  | (IOk r, rest) => if is_empty rest then IOk r else IErr l
  end.
