(* Spec.v — the declarative specification S of retracing, over the record list.
   No map, no sort, no offset, no sentinel.  (DESIGN.md Appendix A.) *)
From PG Require Import Base Mapping.

Record block := { b_orig : str; b_obf : str; b_body : list record }.

(* records before the first class line, and the class blocks, in file order *)
Fixpoint split_blocks (rs : list record) : list record * list block :=
  match rs with
  | [] => ([], [])
  | RClass o b :: rest =>
      let '(pre, bs) := split_blocks rest in
      ([], {| b_orig := o; b_obf := b; b_body := pre |} :: bs)
  | r :: rest => let '(pre, bs) := split_blocks rest in (r :: pre, bs)
  end.
Definition blocks (rs : list record) : list block := snd (split_blocks rs).

(* the last class block with exactly that obfuscated name *)
Definition block_of (rs : list record) (c : str) : option block :=
  find (fun b => str_eqb (b_obf b) c) (rev (blocks rs)).

Record entry := {
  e_obf : str; e_start : N; e_end : N; e_os : N; e_oe : option N;
  e_ocls : option str; e_file : option str; e_orig : str; e_args : str;
  e_inlined : bool }.

Definition synthetic : str := [82;56;36;36;83;121;110;116;104;101;116;105;99;67;108;97;115;115].

Definition same_range (a b : line_mapping) : bool :=
  (lm_start a =? lm_start b) && (lm_end a =? lm_end b).

Definition next_same_range (lm : option line_mapping) (rest : list record) : bool :=
  match lm, rest with
  | Some l, RMethod _ _ _ _ _ (Some l') :: _ => same_range l l'
  | _, _ => false
  end.

Definition entry_lines (lm : option line_mapping) : N * N * N * option N :=
  match lm with
  | None => (0, 0, 0, None)
  | Some l => match lm_os l with
              | Some os => (lm_start l, lm_end l, os, lm_oe l)
              | None => (lm_start l, lm_end l, lm_start l, Some (lm_end l))
              end
  end.

(* the method entries of a class body, each with the source file in force at that point *)
Fixpoint entries (cf : option str) (body : list record) : list entry :=
  match body with
  | [] => []
  | RHeader k v :: rest => entries (if str_eqb k source_file then v else cf) rest
  | RMethod _ orig obf args ocls lm :: rest =>
      let '(s, e, os, oe) := entry_lines lm in
      {| e_obf := obf; e_start := s; e_end := e; e_os := os; e_oe := oe; e_ocls := ocls;
         e_file := cf; e_orig := orig; e_args := args;
         e_inlined := next_same_range lm rest |} :: entries cf rest
  | _ :: rest => entries cf rest
  end.

(* "Outer" of "pkg.Outer$Inner": after the last '.', before the first '$' *)
Fixpoint after_last_dot (acc s : str) : str :=
  match s with
  | [] => acc
  | c :: s' => if c =? 46 then after_last_dot s' s' else after_last_dot acc s'
  end.
Fixpoint before_dollar (s : str) : str :=
  match s with
  | [] => []
  | c :: s' => if c =? 36 then [] else c :: before_dollar s'
  end.
Definition outer_simple_name (s : str) : str := before_dollar (after_last_dot s s).

(* class, method, file, line *)
Notation frame := (str * str * option str * N)%type (only parsing).

Definition entry_class (b : block) (e : entry) : str :=
  match e_ocls e with Some k => k | None => b_orig b end.

Definition entry_applies (e : entry) (line : N) : bool :=
  negb ((0 <? e_end e) && ((line <? e_start e) || (e_end e <? line))).

Definition entry_line (e : entry) (line : N) : N :=
  match e_oe e with
  | None => e_os e
  | Some oe => if oe =? e_os e then e_os e
               else N.min MAX64 (e_os e + (line - e_start e))
  end.

Definition entry_file (b : block) (e : entry) (file : option str) : option str :=
  match e_file e with
  | Some f => if str_eqb f synthetic then Some (outer_simple_name (entry_class b e)) else Some f
  | None => match e_ocls e with Some _ => None | None => file end
  end.

Definition Sline (rs : list record) (c m : str) (line : N) (file : option str) : list frame :=
  match block_of rs c with
  | None => []
  | Some b =>
      flat_map (fun e =>
        if str_eqb (e_obf e) m && entry_applies e line
        then [(entry_class b e, e_orig e, entry_file b e file, entry_line e line)]
        else [])
        (entries None (b_body b))
  end.

Definition key_eqb (a b : entry) : bool :=
  str_eqb (e_obf a) (e_obf b) && str_eqb (e_args a) (e_args b) && str_eqb (e_orig a) (e_orig b).

Fixpoint dedup (seen : list entry) (l : list entry) : list entry :=
  match l with
  | [] => []
  | e :: l' => if existsb (key_eqb e) seen then dedup seen l' else e :: dedup (e :: seen) l'
  end.

(* class, method; every answer frame has line 0 and no file *)
Definition Sparams (rs : list record) (c m p : str) : list (str * str) :=
  match block_of rs c with
  | None => []
  | Some b =>
      let es := dedup [] (filter (fun e => negb (e_inlined e)) (entries None (b_body b))) in
      map (fun e => (entry_class b e, e_orig e))
          (filter (fun e => str_eqb (e_obf e) m && str_eqb (e_args e) p) es)
  end.

Definition Sclass (rs : list record) (c : str) : option str :=
  option_map b_orig (block_of rs c).

Definition Smethod (rs : list record) (c m : str) : option (str * str) :=
  match block_of rs c with
  | None => None
  | Some b =>
      match filter (fun e => str_eqb (e_obf e) m) (entries None (b_body b)) with
      | [] => None
      | e :: es => if forallb (fun e' => str_eqb (e_orig e') (e_orig e)) es
                   then Some (b_orig b, e_orig e) else None
      end
  end.
