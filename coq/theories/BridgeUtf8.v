(* BridgeUtf8.v — bridge (4): every string component of a record yielded by the parser is valid
   UTF-8, hence on parsed records the domain predicate [dom32] of the cache theorems reduces to
   non-emptiness of names and 32-bit bounds of the line numbers. *)
From Coq Require Import Lia Arith Wf_nat.
From PG Require Import Base Mapping Spec CacheWriter MappingProofs IsolationProofs MapperProofs ParserFacts
  Domain StacktraceRoundtrip Utf8Split.

Definition utf8 (s : list N) : Prop := utf8_valid s = true.

(* ------------------------------------------------------------------ *)
(* the sub-parsers                                                      *)
(* ------------------------------------------------------------------ *)
Lemma parse_until_utf8 p l a b : parse_until p l = Some (a, b) -> utf8 a.
Proof.
  unfold parse_until, utf8. destruct (span p l) as [a' b']. destruct (utf8_valid a') eqn:E; [|discriminate].
  intros H. injection H as <- _. exact E.
Qed.

Lemma punn_utf8 p l a b : parse_until_no_newline p l = Some (a, b) -> utf8 a.
Proof.
  unfold parse_until_no_newline. intros H. bind_some H as [a' b'] E.
  destruct (head_is_nl b'); [discriminate|]. injection H as <- _. eapply parse_until_utf8. exact E.
Qed.

Lemma source_file_utf8 : utf8 source_file.
Proof. reflexivity. Qed.

Lemma parse_header_utf8 l r rest : parse_header l = Some (r, rest) -> Forall utf8 (record_strings r).
Proof.
  unfold parse_header. intros H. bind_some H as l0 E.
  destruct (strip_prefix source_file_prefix l0) as [l1|] eqn:E1.
  - bind_some H as [v l2] Ev. bind_some H as l3 Eq. inversion H; subst. cbn [record_strings].
    apply punn_utf8 in Ev. fa. exact source_file_utf8.
  - bind_some H as [k l2] Ek. bind_some H as [v l3] Ev. inversion H; subst. cbn [record_strings].
    apply parse_until_utf8 in Ek.
    constructor; [apply utf8_trim; exact Ek|].
    destruct (strip_prefix [58] l2) as [l'|] eqn:E3.
    + bind_some Ev as [v' l''] Ev'. inversion Ev; subst. cbn [option_map].
      apply parse_until_utf8 in Ev'. fa. apply utf8_trim. exact Ev'.
    + inversion Ev; subst. cbn [option_map]. constructor.
Qed.

Lemma parse_class_utf8 l r rest : parse_class l = Some (r, rest) -> Forall utf8 (record_strings r).
Proof.
  unfold parse_class. intros H.
  bind_some H as [o l1] Eo. bind_some H as l2 Ea. bind_some H as [ob l3] Eb. bind_some H as l4 Ec.
  inversion H; subst. cbn [record_strings].
  apply punn_utf8 in Eo. apply punn_utf8 in Eb. fa.
Qed.

Lemma parse_member_utf8 l r rest : parse_member l = Some (r, rest) -> Forall utf8 (record_strings r).
Proof.
  unfold parse_member. intros H. bind_some H as l0 E.
  destruct (match parse_usize l0 with Some (v, l') => (Some v, l') | None => (None, l0) end)
    as [startline l1] eqn:E1.
  bind_some H as [endline l2] Eend.
  bind_some H as [ty l3] Ety. apply punn_utf8 in Ety.
  bind_some H as l4 Esp.
  bind_some H as [original l5] Eor. apply punn_utf8 in Eor.
  bind_some H as [arguments l6] Earg.
  bind_some H as [os l7] Eos.
  bind_some H as [oe l8] Eoe.
  bind_some H as l9 Earr.
  bind_some H as [obf l10] Eobf. apply parse_until_utf8 in Eobf.
  destruct arguments as [args|].
  - assert (Hargs : utf8 args).
    { destruct (strip_prefix [40] l5) as [l'|] eqn:E6.
      - bind_some Earg as [a l''] Ea. bind_some Earg as lb Eb. inversion Earg; subst.
        apply punn_utf8 in Ea. exact Ea.
      - inversion Earg. }
    destruct (split_last_dot [] original) as [[c o]|] eqn:Esd; inversion H; subst; cbn [record_strings app].
    + destruct (utf8_split_last_dot original c o Esd Eor) as [Hc Ho]. fa.
    + fa.
  - inversion H; subst. cbn [record_strings]. fa.
Qed.

Lemma dispatch_utf8 l r rest : dispatch l = Some (r, rest) -> Forall utf8 (record_strings r).
Proof.
  unfold dispatch. destruct (starts_with [35] l); [apply parse_header_utf8|].
  destruct (starts_with four_spaces l); [apply parse_member_utf8|apply parse_class_utf8].
Qed.

Lemma parse_record_utf8 b r : fst (parse_record b) = IOk r -> Forall utf8 (record_strings r).
Proof.
  unfold parse_record. destruct (dispatch (drop_nl b)) as [[r' rest]|] eqn:E.
  - cbn [fst]. intros H. inversion H; subst. eapply dispatch_utf8. exact E.
  - destruct (split_line (drop_nl b)). cbn [fst]. discriminate.
Qed.

Theorem items_utf8 : forall (b : list N) (r : record),
  In (IOk r) (items b) -> Forall utf8 (record_strings r).
Proof.
  intros b. remember (length b) as n eqn:En. revert b En.
  induction n as [n IH] using lt_wf_ind. intros b En r Hin.
  destruct b as [|x xs]; [rewrite items_nil in Hin; destruct Hin|].
  rewrite items_cons in Hin by discriminate.
  destruct Hin as [Hin|Hin].
  - eapply parse_record_utf8. exact Hin.
  - pose proof (parse_record_progress (x :: xs) ltac:(discriminate)) as Hp.
    eapply (IH (length (snd (parse_record (x :: xs))))); [subst n; exact Hp|reflexivity|exact Hin].
Qed.

Lemma In_ok_records r its : In r (ok_records its) <-> In (IOk r) its.
Proof.
  unfold ok_records. rewrite in_flat_map. split.
  - intros (i & Hi & Hr). destruct i as [r'|e]; [|destruct Hr]. destruct Hr as [->|[]]. exact Hi.
  - intros H. exists (IOk r). split; [exact H|left; reflexivity].
Qed.

Theorem recs_utf8 : forall b r, In r (recs b) ->
  Forall (fun s => utf8_valid s = true) (IsolationProofs.record_strings r).
Proof. intros b r H. apply In_ok_records in H. exact (items_utf8 b r H). Qed.
Print Assumptions recs_utf8.

(* try_parse (one record from one line) *)
Corollary try_parse_utf8 l r : try_parse l = IOk r -> Forall utf8 (record_strings r).
Proof.
  unfold try_parse. destruct (parse_record l) as [[r'|e] rest] eqn:E; [|discriminate].
  destruct (is_empty rest); [|discriminate]. intros H. injection H as <-.
  apply (parse_record_utf8 l). rewrite E. reflexivity.
Qed.

(* ------------------------------------------------------------------ *)
(* dom32 on parsed records                                              *)
(* ------------------------------------------------------------------ *)
Definition nonempty (s : list N) : bool := negb (is_empty s).

Definition simple_rec (r : record) : bool :=
  match r with
  | RHeader k v => if str_eqb k source_file then match v with Some f => nonempty f | None => true end else true
  | RClass o b => nonempty o && nonempty b
  | RField _ _ _ => true
  | RMethod _ orig obf _ ocls lm =>
      nonempty orig && nonempty obf && (match ocls with Some c => nonempty c | None => true end) &&
      (match lm with
       | None => true
       | Some l => num_ok (lm_start l) && num_ok (lm_end l) &&
                   (match lm_os l with Some x => num_ok x | None => true end) &&
                   (match lm_oe l with Some x => num_ok x | None => true end)
       end)
  end.
Definition simple_ok (rs : list record) : bool := forallb simple_rec rs.

Lemma str_ok_intro s : nonempty s = true -> utf8 s -> str_ok s = true.
Proof. intros H1 H2. unfold str_ok. unfold nonempty in H1. rewrite H1, H2. reflexivity. Qed.

(* per record: the simple conditions + valid components + positive line numbers give rec_ok *)
Lemma rec_ok_simple r : simple_rec r = true -> Forall utf8 (record_strings r) -> lm_positive r = true ->
  rec_ok r = true.
Proof.
  intros Hs Hu Hp. destruct r as [k v|o b|ty o b|ty orig obf args ocls lm]; cbn [rec_ok simple_rec record_strings] in *.
  - destruct (str_eqb k source_file); [|reflexivity]. destruct v as [f|]; [|reflexivity].
    inversion Hu as [|x1 l1 _ Hu1]; subst. inversion Hu1 as [|x2 l2 Hf _]; subst.
    apply str_ok_intro; assumption.
  - apply andb_prop in Hs as [H1 H2].
    inversion Hu as [|x1 l1 Ho Hu1]; subst. inversion Hu1 as [|x2 l2 Hb _]; subst.
    rewrite !str_ok_intro by assumption. reflexivity.
  - reflexivity.
  - apply andb_prop in Hs as [Hs Hlm]. apply andb_prop in Hs as [Hs Hocls]. apply andb_prop in Hs as [H1 H2].
    cbn [app] in Hu.
    inversion Hu as [|x1 l1 _ Hu1]; subst. inversion Hu1 as [|x2 l2 Ho Hu2]; subst.
    inversion Hu2 as [|x3 l3 Hb Hu3]; subst. inversion Hu3 as [|x4 l4 Ha Hu4]; subst.
    rewrite !str_ok_intro by assumption. unfold utf8 in Ha. rewrite Ha. cbn [andb].
    apply andb_true_iff. split.
    + destruct ocls as [c|]; [|reflexivity]. inversion Hu4 as [|x5 l5 Hc _]; subst.
      apply str_ok_intro; assumption.
    + destruct lm as [l|]; [|reflexivity]. cbn [lm_positive] in Hp. apply andb_prop in Hp as [_ He].
      apply andb_prop in Hlm as [Hlm H4]. apply andb_prop in Hlm as [Hlm H3]. apply andb_prop in Hlm as [Hn1 Hn2].
      rewrite Hn1, Hn2, He, H3, H4. reflexivity.
Qed.

Theorem dom32_recs_simple b : simple_ok (recs b) = true -> dom32 (recs b) = true.
Proof.
  intros Hs. unfold dom32, simple_ok in *. apply forallb_forall. intros r Hr.
  apply rec_ok_simple.
  - exact (proj1 (forallb_forall _ _) Hs r Hr).
  - exact (recs_utf8 b r Hr).
  - exact (proj1 (forallb_forall _ _) (recs_lm_positive b) r Hr).
Qed.
Print Assumptions dom32_recs_simple.

(* the simple conditions are also necessary *)
Lemma rec_ok_simple_conv r : rec_ok r = true -> simple_rec r = true.
Proof.
  destruct r as [k v|o b|ty o b|ty orig obf args ocls lm]; cbn [rec_ok simple_rec]; intros H.
  - destruct (str_eqb k source_file); [|reflexivity]. destruct v as [f|]; [|reflexivity].
    unfold str_ok in H. apply andb_prop in H as [H _]. exact H.
  - apply andb_prop in H as [H1 H2]. unfold str_ok in H1, H2.
    apply andb_prop in H1 as [H1 _]. apply andb_prop in H2 as [H2 _]. unfold nonempty. rewrite H1, H2. reflexivity.
  - reflexivity.
  - apply andb_prop in H as [H Hlm]. apply andb_prop in H as [H Hc]. apply andb_prop in H as [H _].
    apply andb_prop in H as [H1 H2]. unfold str_ok in H1, H2.
    apply andb_prop in H1 as [H1 _]. apply andb_prop in H2 as [H2 _]. unfold nonempty. rewrite H1, H2. cbn [andb].
    apply andb_true_iff. split.
    + destruct ocls as [c|]; [|reflexivity]. unfold str_ok in Hc. apply andb_prop in Hc as [Hc _]. exact Hc.
    + destruct lm as [l|]; [|reflexivity].
      apply andb_prop in Hlm as [Hlm H4]. apply andb_prop in Hlm as [Hlm H3]. apply andb_prop in Hlm as [Hlm _].
      apply andb_prop in Hlm as [Hn1 Hn2]. rewrite Hn1, Hn2, H3, H4. reflexivity.
Qed.

Corollary dom32_recs_iff b : dom32 (recs b) = true <-> simple_ok (recs b) = true.
Proof.
  split; [|apply dom32_recs_simple]. unfold dom32, simple_ok. rewrite !forallb_forall.
  intros H r Hr. apply rec_ok_simple_conv, H, Hr.
Qed.
Print Assumptions dom32_recs_iff.

(* ------------------------------------------------------------------ *)
(* examples                                                             *)
(* ------------------------------------------------------------------ *)
Module Examples.
  Import Coq.Strings.String Coq.Strings.Ascii.
  Fixpoint s (x : string) : list N :=
    match x with EmptyString => [] | String a r => N_of_ascii a :: s r end.
  Definition nl : list N := [10].
  (* a header with Unicode whitespace around key and value (U+3000, NBSP), a class with a non-ASCII
     name, a method with an outer class split at the last dot next to a 3-byte character, a line
     with an invalid byte (skipped as an error), a sourceFile header *)
  Definition input : list N :=
    s "#" ++ [227;128;128] ++ s "k" ++ [194;160] ++ s ":" ++ [226;128;131] ++ s "v" ++ [194;133] ++ nl ++
    [195;169] ++ s ".A -> a:" ++ nl ++
    s "# {""id"":""sourceFile"",""fileName"":""A.kt""}" ++ nl ++
    s "    1:2:void x." ++ [226;130;172] ++ s ".m(int):3:4 -> b" ++ nl ++
    s "    int " ++ [255] ++ s " -> c" ++ nl ++
    s "    int f -> d" ++ nl.

  Example recs_ex : recs input =
    [ RHeader (s "k") (Some (s "v"));
      RClass ([195;169] ++ s ".A") (s "a");
      RHeader source_file (Some (s "A.kt"));
      RMethod (s "void") (s "m") (s "b") (s "int") (Some (s "x." ++ [226;130;172]))
              (Some {| lm_start := 1; lm_end := 2; lm_os := Some 3; lm_oe := Some 4 |});
      RField (s "int") (s "f") (s "d") ].
  Proof. vm_compute. reflexivity. Qed.

  Example simple_ex : simple_ok (recs input) = true /\ dom32 (recs input) = true.
  Proof. split; [vm_compute; reflexivity|apply dom32_recs_simple; vm_compute; reflexivity]. Qed.

  Example utf8_ex : Forall (fun r => Forall utf8 (record_strings r)) (recs input).
  Proof. apply Forall_forall. intros r Hr. exact (recs_utf8 input r Hr). Qed.

  (* simple_ok is not automatic: the parser yields empty names *)
  Example simple_needed : recs (s " -> a:" ++ nl) = [RClass [] (s "a")] /\ dom32 (recs (s " -> a:" ++ nl)) = false.
  Proof. vm_compute. split; reflexivity. Qed.
End Examples.
