(* UuidProofs.v — facts about the SHA-1 / version-5 UUID model of Uuid.v
   (ProguardMapping::uuid, src/mapping.rs:222-232). *)
From PG Require Import Base Uuid.
From Coq Require Import Lia.

(* ------------------------------------------------------------------ *)
(* definition and namespace                                            *)
(* ------------------------------------------------------------------ *)
Theorem uuid_def : forall b, mapping_uuid b = uuid_v5 (uuid_v5 ns_dns guardsquare) b.
Proof. intros b. unfold mapping_uuid, ns_proguard. reflexivity. Qed.
Print Assumptions uuid_def.

(* 4f44f30f-24be-53d0-bab6-f47c7120ad6c *)
Theorem namespace_value :
  ns_proguard = [79;68;243;15;36;190;83;208;186;182;244;124;113;32;173;108].
Proof. vm_compute. reflexivity. Qed.
Print Assumptions namespace_value.

(* ------------------------------------------------------------------ *)
(* lengths                                                             *)
(* ------------------------------------------------------------------ *)
Lemma bytes_of_word_length : forall w, length (bytes_of_word w) = 4%nat.
Proof. intros w. reflexivity. Qed.

Theorem sha1_length : forall msg, length (sha1 msg) = 20%nat.
Proof.
  intros msg. unfold sha1. cbv zeta.
  rewrite !app_length, !bytes_of_word_length. reflexivity.
Qed.
Print Assumptions sha1_length.

Lemma set_version_variant_length : forall l, length (set_version_variant l) = length l.
Proof.
  intros l. unfold set_version_variant.
  destruct l as [|b0 [|b1 [|b2 [|b3 [|b4 [|b5 [|b6 [|b7 [|b8 rest]]]]]]]]]; reflexivity.
Qed.

Theorem uuid_length : forall ns name, length (uuid_v5 ns name) = 16%nat.
Proof.
  intros ns name. unfold uuid_v5.
  rewrite set_version_variant_length, firstn_length, sha1_length. reflexivity.
Qed.
Print Assumptions uuid_length.

(* ------------------------------------------------------------------ *)
(* version and variant bits                                            *)
(* ------------------------------------------------------------------ *)
Lemma version_nibble : forall x, (x mod 16 + 80) / 16 = 5.
Proof.
  intros x. pose proof (N.mod_lt x 16 ltac:(lia)) as Hm.
  set (m := x mod 16) in *. clearbody m.
  symmetry. apply (N.div_unique (m + 80) 16 5 m); lia.
Qed.

Lemma variant_bits : forall y, (y mod 64 + 128) / 64 = 2.
Proof.
  intros y. pose proof (N.mod_lt y 64 ltac:(lia)) as Hm.
  set (m := y mod 64) in *. clearbody m.
  symmetry. apply (N.div_unique (m + 128) 64 2 m); lia.
Qed.

Theorem uuid_version_variant : forall ns name,
  exists b0 b1 b2 b3 b4 b5 b6 b7 b8 rest,
    uuid_v5 ns name = b0 :: b1 :: b2 :: b3 :: b4 :: b5 :: b6 :: b7 :: b8 :: rest /\
    b6 / 16 = 5 /\ b8 / 64 = 2.
Proof.
  intros ns name. unfold uuid_v5.
  assert (L : length (firstn 16 (sha1 (ns ++ name))) = 16%nat).
  { rewrite firstn_length, sha1_length. reflexivity. }
  destruct (firstn 16 (sha1 (ns ++ name)))
    as [|b0 [|b1 [|b2 [|b3 [|b4 [|b5 [|b6 [|b7 [|b8 rest]]]]]]]]];
    cbn [length] in L; try discriminate L.
  cbn [set_version_variant].
  exists b0, b1, b2, b3, b4, b5, (b6 mod 16 + 80), b7, (b8 mod 64 + 128), rest.
  split; [reflexivity|]. split; [apply version_nibble|apply variant_bits].
Qed.
Print Assumptions uuid_version_variant.

(* the same as ranges: 0x50 <= b6 <= 0x5f, 0x80 <= b8 <= 0xbf *)
Corollary uuid_version_variant_ranges : forall ns name,
  exists b0 b1 b2 b3 b4 b5 b6 b7 b8 rest,
    uuid_v5 ns name = b0 :: b1 :: b2 :: b3 :: b4 :: b5 :: b6 :: b7 :: b8 :: rest /\
    80 <= b6 < 96 /\ 128 <= b8 < 192.
Proof.
  intros ns name.
  destruct (uuid_version_variant ns name)
    as [b0 [b1 [b2 [b3 [b4 [b5 [b6 [b7 [b8 [rest [E [H6 H8]]]]]]]]]]]].
  exists b0, b1, b2, b3, b4, b5, b6, b7, b8, rest. split; [exact E|].
  pose proof (N.div_mod b6 16 ltac:(lia)) as D6. pose proof (N.mod_lt b6 16 ltac:(lia)) as M6.
  pose proof (N.div_mod b8 64 ltac:(lia)) as D8. pose proof (N.mod_lt b8 64 ltac:(lia)) as M8.
  rewrite H6 in D6. rewrite H8 in D8.
  set (m6 := b6 mod 16) in *. set (m8 := b8 mod 64) in *. clearbody m6 m8. lia.
Qed.
Print Assumptions uuid_version_variant_ranges.

(* ------------------------------------------------------------------ *)
(* all output bytes are bytes                                          *)
(* ------------------------------------------------------------------ *)
Lemma add32_lt : forall a b, add32 a b < W32.
Proof. intros a b. unfold add32. apply N.mod_lt. unfold W32. lia. Qed.

Definition wf32 (s : st5) : Prop :=
  ha s < W32 /\ hb s < W32 /\ hc s < W32 /\ hd s < W32 /\ he s < W32.

Lemma sha1_init_wf : wf32 sha1_init.
Proof. unfold wf32, sha1_init, W32. cbn [ha hb hc hd he]. lia. Qed.

(* the result of a block is wf32 whatever the input state and block are *)
Lemma block_wf : forall s blk, wf32 (block s blk).
Proof.
  intros s blk. unfold block, wf32. cbv zeta. cbn [ha hb hc hd he].
  repeat split; apply add32_lt.
Qed.

Lemma blocks_wf : forall fuel s l, wf32 s -> wf32 (blocks fuel s l).
Proof.
  induction fuel as [|f IH]; intros s l H; cbn [blocks]; [exact H|].
  destruct l as [|x l']; [exact H|]. apply IH. apply block_wf.
Qed.

Lemma bytes_of_word_lt : forall w, w < W32 -> Forall (fun x => x < 256) (bytes_of_word w).
Proof.
  intros w H. unfold W32 in H. unfold bytes_of_word.
  repeat constructor; try (apply N.mod_lt; lia).
  apply N.div_lt_upper_bound; lia.
Qed.

Theorem sha1_bytes : forall msg, Forall (fun x => x < 256) (sha1 msg).
Proof.
  intros msg. unfold sha1. cbv zeta.
  pose proof (blocks_wf (S (Nat.div (length (pad msg)) 64)) sha1_init (pad msg) sha1_init_wf) as W.
  set (s := blocks _ _ _) in *. clearbody s.
  destruct W as [Wa [Wb [Wc [Wd We]]]].
  repeat (apply Forall_app; split); apply bytes_of_word_lt; assumption.
Qed.
Print Assumptions sha1_bytes.

Lemma Forall_firstn_lt : forall (P : N -> Prop) n l, Forall P l -> Forall P (firstn n l).
Proof.
  intros P n. induction n as [|n IH]; intros l H; cbn [firstn]; [constructor|].
  destruct l as [|x r]; [constructor|].
  inversion H as [|x' r' Hx Hr]; subst. constructor; [exact Hx|apply IH; exact Hr].
Qed.

Lemma set_version_variant_bytes : forall l,
  Forall (fun x => x < 256) l -> Forall (fun x => x < 256) (set_version_variant l).
Proof.
  intros l H. unfold set_version_variant.
  destruct l as [|b0 [|b1 [|b2 [|b3 [|b4 [|b5 [|b6 [|b7 [|b8 rest]]]]]]]]]; try exact H.
  repeat match goal with
         | Hf : Forall _ (_ :: _) |- _ => inversion Hf; clear Hf; subst
         end.
  pose proof (N.mod_lt b6 16 ltac:(lia)). pose proof (N.mod_lt b8 64 ltac:(lia)).
  repeat (constructor; [first [assumption | lia]|]). assumption.
Qed.

Theorem uuid_bytes : forall ns name, Forall (fun x => x < 256) (uuid_v5 ns name).
Proof.
  intros ns name. unfold uuid_v5.
  apply set_version_variant_bytes, Forall_firstn_lt, sha1_bytes.
Qed.
Print Assumptions uuid_bytes.

Corollary mapping_uuid_bytes : forall b,
  length (mapping_uuid b) = 16%nat /\ Forall (fun x => x < 256) (mapping_uuid b).
Proof. intros b. unfold mapping_uuid. split; [apply uuid_length|apply uuid_bytes]. Qed.
Print Assumptions mapping_uuid_bytes.

(* determinism: a Gallina function *)
Remark uuid_depends_only_on_bytes : forall b1 b2, b1 = b2 -> mapping_uuid b1 = mapping_uuid b2.
Proof. intros b1 b2 ->. reflexivity. Qed.

(* ------------------------------------------------------------------ *)
(* test vectors (FIPS 180 / RFC 3174)                                  *)
(* ------------------------------------------------------------------ *)
(* sha1 "" = da39a3ee5e6b4b0d3255bfef95601890afd80709 *)
Example sha1_empty :
  sha1 [] = [218;57;163;238;94;107;75;13;50;85;191;239;149;96;24;144;175;216;7;9].
Proof. vm_compute. reflexivity. Qed.

(* sha1 "abc" = a9993e364706816aba3e25717850c26c9cd0d89d *)
Example sha1_abc :
  sha1 [97;98;99] = [169;153;62;54;71;6;129;106;186;62;37;113;120;80;194;108;156;208;216;157].
Proof. vm_compute. reflexivity. Qed.

(* 56 bytes, two blocks: 84983e441c3bd26ebaae4aa1f95129e5e54670f1 *)
Definition msg56 : list N :=
  [97;98;99;100;98;99;100;101;99;100;101;102;100;101;102;103;101;102;103;104;102;103;104;105;
   103;104;105;106;104;105;106;107;105;106;107;108;106;107;108;109;107;108;109;110;108;109;110;111;
   109;110;111;112;110;111;112;113].
Example sha1_two_blocks :
  length msg56 = 56%nat /\ length (pad msg56) = 128%nat /\
  sha1 msg56 = [132;152;62;68;28;59;210;110;186;174;74;161;249;81;41;229;229;70;112;241].
Proof. vm_compute. repeat split. Qed.

(* uuid of the empty mapping: 0e71d76c-5067-5a02-a5d9-7e81070eb125 *)
Example mapping_uuid_empty :
  mapping_uuid [] = [14;113;215;108;80;103;90;2;165;217;126;129;7;14;177;37].
Proof. vm_compute. reflexivity. Qed.

(* the version/variant theorem on a concrete value: bytes 6 and 8 of the namespace uuid *)
Example uuid_version_variant_ex :
  nth 6 (uuid_v5 ns_dns guardsquare) 0 = 83 /\ 83 / 16 = 5 /\
  nth 8 (uuid_v5 ns_dns guardsquare) 0 = 186 /\ 186 / 64 = 2 /\
  length (uuid_v5 ns_dns guardsquare) = 16%nat /\
  forallb (fun x => x <? 256) (uuid_v5 ns_dns guardsquare) = true.
Proof. vm_compute. repeat split. Qed.

(* set_version_variant really changes bytes: raw SHA-1 of ns_dns ++ "guardsquare.com" *)
Example uuid_raw_ex :
  nth 6 (sha1 (ns_dns ++ guardsquare)) 0 mod 16 + 80 = 83 /\
  nth 8 (sha1 (ns_dns ++ guardsquare)) 0 mod 64 + 128 = 186.
Proof. vm_compute. split; reflexivity. Qed.
