(* Java.v — model of src/java.rs: JVM descriptor tokenizer, type renderer, and
   DeobfuscatedSignature::format_signature (src/mapper.rs).  Char indices are byte indices
   here: every decision is taken on an ASCII char. *)
From PG Require Import Base.

(* java_base_types; guarded against Extracted.jvm_primitives in Guards.v *)
Definition primitives : list (N * str) :=
  [(90, [98;111;111;108;101;97;110]); (66, [98;121;116;101]); (67, [99;104;97;114]);
   (83, [115;104;111;114;116]); (73, [105;110;116]); (74, [108;111;110;103]);
   (70, [102;108;111;97;116]); (68, [100;111;117;98;108;101]); (86, [118;111;105;100])].
Fixpoint prim_lookup (c : byte) (l : list (N * str)) : option str :=
  match l with
  | [] => None
  | (k, v) :: r => if c =? k then Some v else prim_lookup c r
  end.
Definition base_type (c : byte) : option str := prim_lookup c primitives.
Definition void_kw : str := [118;111;105;100].

Section Java.
Variable remap_class : str -> option str.

Definition dots (s : str) : str := map (fun b => if b =? 47 then 46 else b) s.

(* byte_code_type_to_java_type.  next_back pops a whole char, which equals ';' only if
   the last byte is ';'. *)
Fixpoint to_java (suffix : str) (l : str) : option str :=
  match l with
  | [] => None
  | c :: r =>
    if c =? 76 then
      if is_empty r then None
      else if ends_with 59 r then
        let obf := dots (removelast r) in
        match remap_class obf with
        | Some m => Some (m ++ suffix)
        | None => Some (obf ++ suffix)
        end
      else None
    else if c =? 91 then to_java (suffix ++ [91;93]) r
    else match base_type c with
         | Some t => Some (t ++ suffix)
         | None => to_java suffix r
         end
  end.

(* consumes through ';': (bytes of the type so far reversed, rest, terminated) *)
Fixpoint scan_obj (cur : str) (l : str) : str * str * bool :=
  match l with
  | [] => (cur, [], false)
  | c :: r => if c =? 59 then (c :: cur, r, true) else scan_obj (c :: cur) r
  end.

(* the tokenizer loop of parse_obfuscated_bytecode_signature; cur = bytes since first_idx,
   reversed.  An unterminated object type yields None: the slice then either does not end
   with ';' or does not end on a char boundary. *)
Fixpoint tokenize (fuel : nat) (cur : str) (l : str) : option (list str) :=
  match fuel with
  | O => Some []
  | S f =>
    match l with
    | [] => Some []
    | c :: r =>
      if c =? 76 then
        let '(ty, rest, term) := scan_obj (c :: cur) r in
        if term then match tokenize f [] rest with Some ts => Some (rev ty :: ts) | None => None end
        else None
      else if c =? 91 then tokenize f (c :: cur) r
      else match base_type c with
           | Some _ => match tokenize f [] r with Some ts => Some (rev (c :: cur) :: ts) | None => None end
           | None => tokenize f (c :: cur) r
           end
    end
  end.

(* deobfuscate_bytecode_signature *)
Definition deobfuscate (sig : str) : option (list str * str) :=
  match strip_prefix [40] sig with
  | None => None
  | Some rest =>
    match rsplit_once 41 rest with
    | None => None
    | Some (params, ret) =>
      if is_empty ret then None else
      match tokenize (S (length params)) [] params with
      | None => None
      | Some tys =>
        let ps := flat_map (fun t => if is_empty t then []
                                     else match to_java [] t with Some j => [j] | None => [] end) tys in
        match to_java [] ret with
        | Some r => Some (ps, r)
        | None => None
        end
      end
    end
  end.
End Java.

(* format_signature *)
Definition join_comma (ps : list str) : str :=
  match ps with
  | [] => []
  | p :: rest => p ++ flat_map (fun q => [44;32] ++ q) rest
  end.
Definition format_sig (x : list str * str) : str :=
  let '(ps, r) := x in
  [40] ++ join_comma ps ++ [41]
  ++ (if is_empty r || str_eqb r void_kw then [] else [58;32] ++ r).
