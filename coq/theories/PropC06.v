(* PropC06.v — property C06 (parsing is total, a bad line affects only itself).
   Only statements, closed by [exact]; proofs live in MappingProofs.v. *)
From PG Require Import Base Mapping MappingProofs.

(* the iterator always advances: the remaining slice gets strictly shorter *)
Theorem C06_progress : forall b : list N, b <> [] -> (length (snd (parse_record b)) < length b)%nat.
Proof. exact parse_record_progress. Qed.

(* at most one item per input byte (and the fuelled iterator model never runs out) *)
Theorem C06_items_bound : forall b : list N, (length (items b) <= length b)%nat.
Proof. exact items_length_bound. Qed.

Check C06_progress : forall b : list N, b <> [] -> (length (snd (parse_record b)) < length b)%nat.
Check C06_items_bound : forall b : list N, (length (items b) <= length b)%nat.
