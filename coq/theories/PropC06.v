(* PropC06.v — property C06 (parsing is total, a bad line affects only itself).
   Only statements, closed by [exact]; proofs live in MappingProofs.v. *)
From PG Require Import Base Mapping MappingProofs IsolationProofs.

(* the iterator always advances: the remaining slice gets strictly shorter *)
Theorem C06_progress : forall b : list N, b <> [] -> (length (snd (parse_record b)) < length b)%nat.
Proof. exact parse_record_progress. Qed.

(* at most one item per input byte (and the fuelled iterator model never runs out) *)
Theorem C06_items_bound : forall b : list N, (length (items b) <= length b)%nat.
Proof. exact items_length_bound. Qed.

(* no name, type, argument string or header value yielded contains a line terminator *)
Theorem C06_no_terminator : forall (b : list N) (r : record),
  In (IOk r) (items b) -> Forall nlfree (record_strings r).
Proof. exact items_no_terminator. Qed.

(* parsing resynchronises at every line break: the records of A + newline + B are the
   records of A followed by the records of B *)
Theorem C06_isolation : forall (A B nl : list N),
  In nl [[10]; [13]; [13;10]] -> recs (A ++ nl ++ B) = recs A ++ recs B.
Proof. exact recs_isolation. Qed.

(* totality: the model is a total function; every sub-slice it takes is obtained by
   position()+split_at / strip_prefix, which cannot be out of bounds (MappingProofs: span_app,
   strip_prefix_app); the iterator terminates by C06_progress. *)

Check C06_no_terminator : forall (b : list N) (r : record),
  In (IOk r) (items b) -> Forall nlfree (record_strings r).
Check C06_isolation : forall (A B nl : list N),
  In nl [[10]; [13]; [13;10]] -> recs (A ++ nl ++ B) = recs A ++ recs B.
Check C06_progress : forall b : list N, b <> [] -> (length (snd (parse_record b)) < length b)%nat.
Check C06_items_bound : forall b : list N, (length (items b) <= length b)%nat.
