(* Bridges.v — the four groups of bridging theorems, re-exported, and two end-to-end corollaries
   that chain them.
     (1) BridgeC02.v    text / typed trace agreement of cache and mapper (C02, last clause)
     (2) BridgeC08.v    wf_trace + no CR  ->  canonical  (C17 -> C08)
     (3) BridgeBlocks.v order of distinctly named class blocks is irrelevant (C01, last clause)
     (4) Utf8Split.v, BridgeUtf8.v   parsed strings are valid UTF-8; dom32 on parsed records *)
From PG Require Import Base Mapping Spec Mapper CacheWriter CacheReader CacheStructDefs
  MapperProofs Domain CacheProofs Stacktrace RemapProofs StacktraceRoundtrip.
From PG Require Export BridgeC02 BridgeC08 BridgeBlocks Utf8Split BridgeUtf8.

(* (4) + (1): for a mapping file given as bytes, the domain hypothesis of the agreement theorems is
   the executable check [simple_ok] (names non-empty, numbers < 2^32 - 1) and the size bound *)
Theorem C02_text_bytes b ix : simple_ok (recs b) = true -> sizes_ok (recs b) = true -> forall input,
  remap_text (c_remap_class (C (recs b))) (c_remap_frame_lines (C (recs b))) input
  = remap_text (m_remap_class (build ix (recs b)))
               (fun c m l f => frames_of (m_remap_frame_lines (build ix (recs b)) c m l f)) input.
Proof.
  intros Hs Hz input. apply (C02_text_dom (recs b) ix (dom32_recs_simple b Hs) Hz input).
Qed.

Theorem C02_typed_bytes b ix : simple_ok (recs b) = true -> sizes_ok (recs b) = true -> forall t,
  remap_typed (c_remap_class (C (recs b))) (c_remap_frame_lines (C (recs b))) t
  = remap_typed (m_remap_class (build ix (recs b)))
                (fun c m l f => frames_of (m_remap_frame_lines (build ix (recs b)) c m l f)) t.
Proof.
  intros Hs Hz t. apply (C02_typed_dom (recs b) ix (dom32_recs_simple b Hs) Hz t).
Qed.
Print Assumptions C02_text_bytes.
Print Assumptions C02_typed_bytes.

(* (1) + (2): on a well-formed CR-free trace the four ways of remapping agree: typed or text,
   through the cache or through the mapper *)
Theorem C02_C08_square rs ix t : dom32 rs = true -> sizes_ok rs = true -> wf_trace_nocr t = true ->
  let ct := print_trace (remap_typed (c_remap_class (C rs)) (c_remap_frame_lines (C rs)) t) in
  let cx := remap_text (c_remap_class (C rs)) (c_remap_frame_lines (C rs)) (print_trace t) in
  let mt := print_trace (remap_typed (m_remap_class (build ix rs)) (m_frames ix rs) t) in
  let mx := remap_text (m_remap_class (build ix rs)) (m_frames ix rs) (print_trace t) in
  ct = cx /\ cx = mx /\ mx = mt.
Proof.
  intros Hd Hz Hw. cbv zeta. split; [|split].
  - apply C08_print_wf. exact Hw.
  - exact (proj1 (C02_text_dom rs ix Hd Hz (print_trace t))).
  - symmetry. apply C08_print_wf. exact Hw.
Qed.
Print Assumptions C02_C08_square.

Module Examples.
  Example square_ex :
    dom32 CacheProofs.Ex.rs_ex = true /\ sizes_ok CacheProofs.Ex.rs_ex = true /\
    wf_trace_nocr BridgeC02.Examples.trace_ex = true.
  Proof. vm_compute. repeat split; reflexivity. Qed.

  Example bytes_ex :
    simple_ok (recs BridgeUtf8.Examples.input) = true /\ sizes_ok (recs BridgeUtf8.Examples.input) = true.
  Proof. vm_compute. split; reflexivity. Qed.
End Examples.
