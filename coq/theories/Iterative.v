(* Iterative.v — the code of the typed trace API as it is written since fix 5c75dfb (F8): loops over the
   cause chain instead of recursion.  The model functions of Stacktrace.v (remap_typed, print_trace) are
   structurally recursive; here the loop shape of the Rust code is modelled literally —

     remap_stacktrace_typed:   let mut levels = Vec::new();  while let Some(trace) = current { levels.push((exception, frames)); current = cause }
                               let mut remapped = None;  for (e, fs) in levels.into_iter().rev() { remapped = Some(StackTrace { e, fs, cause: remapped.map(Box::new) }) }
                               remapped.unwrap()
     Display for StackTrace:   while let Some(trace) = current { exception line; frame lines; current = cause; if current.is_some() { "Caused by: " } }

   — and proved equal to the recursive model for every trace, so the theorems about remap_typed /
   print_trace (C08, C17) are theorems about the loops, and the `unwrap` is shown never to fail. *)
From PG Require Import Base Mapping Spec Stacktrace.

Definition level := (option throwable * list frame)%type.

(* the while loop: the levels from the outermost trace to the innermost cause *)
Fixpoint levels (t : trace) : list level :=
  match t with
  | Trace e fs c => (e, fs) :: match c with Some c' => levels c' | None => [] end
  end.

(* the for loop over levels.into_iter().rev() *)
Definition rebuild_step (acc : option trace) (l : level) : option trace := Some (Trace (fst l) (snd l) acc).
Definition rebuild (ls : list level) : option trace := fold_left rebuild_step (rev ls) None.

Lemma rebuild_cons l ls : rebuild (l :: ls) = Some (Trace (fst l) (snd l) (rebuild ls)).
Proof. unfold rebuild. cbn [rev]. rewrite fold_left_app. reflexivity. Qed.

(* rebuilding the levels of a trace gives the trace back: the loop pair is the identity on the shape *)
Lemma trace_rect' (P : trace -> Prop)
  (Hleaf : forall e fs, P (Trace e fs None))
  (Hnode : forall e fs c, P c -> P (Trace e fs (Some c))) : forall t, P t.
Proof. fix IH 1. intros [e fs [c|]]; [apply Hnode, IH | apply Hleaf]. Qed.

Theorem rebuild_levels : forall t, rebuild (levels t) = Some t.
Proof.
  induction t as [e fs | e fs c IH] using trace_rect'.
  - reflexivity.
  - cbn [levels]. rewrite rebuild_cons. cbn [fst snd]. rewrite IH. reflexivity.
Qed.

(* `remapped.unwrap()` cannot fail: there is at least the top-level trace *)
Theorem levels_nonempty : forall t, levels t <> [].
Proof. intros [e fs c]. discriminate. Qed.
Theorem rebuild_some : forall ls, ls <> [] -> exists t, rebuild ls = Some t.
Proof. intros [|l ls] H; [contradiction|]. rewrite rebuild_cons. eexists. reflexivity. Qed.

Section Remap.
Variable remap_class : str -> option str.
Variable remap_frame : str -> str -> N -> option str -> list frame.

(* the body of the while loop: one level remapped on its own *)
Definition remap_level (l : level) : level :=
  (option_map (fun e => match remap_throwable remap_class e with Some e' => e' | None => e end) (fst l),
   flat_map (fun f => match do_frame remap_frame f with [] => [f] | fs => fs end) (snd l)).

Definition remap_typed_iter (t : trace) : option trace := rebuild (map remap_level (levels t)).

Theorem remap_typed_iter_correct : forall t,
  remap_typed_iter t = Some (remap_typed remap_class remap_frame t).
Proof.
  unfold remap_typed_iter.
  induction t as [e fs | e fs c IH] using trace_rect'.
  - reflexivity.
  - cbn [levels map]. rewrite rebuild_cons, IH. reflexivity.
Qed.

(* the number of levels (the depth of the cause chain + 1) is what the loop preserves *)
Theorem levels_remap_typed : forall t,
  levels (remap_typed remap_class remap_frame t) = map remap_level (levels t).
Proof.
  induction t as [e fs | e fs c IH] using trace_rect'.
  - reflexivity.
  - cbn [remap_typed option_map levels map]. rewrite IH. reflexivity.
Qed.
End Remap.

(* Display: the loop prints every level, with "Caused by: " before every level but the first *)
Definition print_level (l : level) : str :=
  (match fst l with Some e => print_throwable e ++ [10] | None => [] end)
  ++ flat_map (fun f => indent ++ print_frame f ++ [10]) (snd l).
Fixpoint print_levels (ls : list level) : str :=
  match ls with
  | [] => []
  | l :: rest => print_level l ++ match rest with [] => [] | _ => caused_by ++ print_levels rest end
  end.

Lemma print_levels_cons l ls : ls <> [] ->
  print_levels (l :: ls) = print_level l ++ caused_by ++ print_levels ls.
Proof. destruct ls as [|x xs]; [contradiction|reflexivity]. Qed.

Theorem print_iter_correct : forall t, print_levels (levels t) = print_trace t.
Proof.
  induction t as [e fs | e fs c IH] using trace_rect'.
  - cbn [levels print_levels print_trace print_level fst snd]. rewrite !app_nil_r. reflexivity.
  - cbn [levels print_trace]. rewrite (print_levels_cons _ _ (levels_nonempty c)), IH.
    unfold print_level. cbn [fst snd]. rewrite <- app_assoc. reflexivity.
Qed.

Lemma length_levels : forall t, length (levels t) = S (depth t).
Proof.
  induction t as [e fs | e fs c IH] using trace_rect'; [reflexivity|].
  cbn [levels length depth]. rewrite IH. reflexivity.
Qed.

Example iter_ex :
  let t := Trace (Some ([97], None)) [([97], [109], None, 1)] (Some (Trace None [] (Some (Trace (Some ([98], Some [99])) [] None)))) in
  rebuild (levels t) = Some t /\ print_levels (levels t) = print_trace t /\ length (levels t) = 3%nat.
Proof. vm_compute. repeat split; reflexivity. Qed.

Print Assumptions remap_typed_iter_correct.
Print Assumptions print_iter_correct.
Print Assumptions rebuild_levels.
