(* CacheLayout.v — well-formedness ([struct_wf]) and layout invariants of the structure written by
   [write_struct], under the domain hypotheses of CacheProofs.v. *)
From Coq Require Import Lia Sorted.
From PG Require Import Base Mapping Spec CacheWriter CacheReader CacheStructDefs BinSearchProofs LexOrder
  StringTableProofs MapperProofs BtLemmas Domain WriterInv CacheProofs.

(* ------------------------------------------------------------------ *)
(* 1. bytes of valid UTF-8, bytes of the string table                   *)
(* ------------------------------------------------------------------ *)
Lemma inr_hi lo hi b : inr lo hi b = true -> b <= hi.
Proof. unfold inr. intros H. apply andb_true_iff in H. destruct H as [_ H]. apply N.leb_le in H. exact H. Qed.

Ltac u8 := repeat match goal with
  | H : inr _ _ _ = true |- _ => apply inr_hi in H
  | H : _ && _ = true |- _ => apply andb_true_iff in H; destruct H
  | H : _ || _ = true |- _ => apply orb_true_iff in H; destruct H
  | H : (_ =? _) = true |- _ => apply N.eqb_eq in H
  | H : (_ <? _) = true |- _ => apply N.ltb_lt in H
  end.

Lemma utf8_valid_bytes_n : forall n s, (length s <= n)%nat -> utf8_valid s = true -> Forall (fun b => b < 256) s.
Proof.
  induction n as [|n IH]; intros s Hl H.
  - destruct s; [constructor|cbn [length] in Hl; lia].
  - destruct s as [|b0 r0]; [constructor|]. cbn [utf8_valid] in H. cbn [length] in Hl.
    destruct (b0 <? 128) eqn:E0.
    { u8. constructor; [lia|]. apply IH; [lia|assumption]. }
    destruct r0 as [|b1 r1]; [discriminate|]. cbn [length] in Hl.
    destruct (inr 194 223 b0) eqn:E1.
    { u8. repeat (constructor; [lia|]). apply IH; [lia|assumption]. }
    destruct r1 as [|b2 r2]; [discriminate|]. cbn [length] in Hl.
    destruct (b0 =? 224) eqn:E2.
    { u8. repeat (constructor; [lia|]). apply IH; [lia|assumption]. }
    destruct (inr 225 236 b0 || inr 238 239 b0) eqn:E3.
    { u8; repeat (constructor; [lia|]); (apply IH; [lia|assumption]). }
    destruct (b0 =? 237) eqn:E4.
    { u8. repeat (constructor; [lia|]). apply IH; [lia|assumption]. }
    destruct r2 as [|b3 r3]; [discriminate|]. cbn [length] in Hl.
    destruct (b0 =? 240) eqn:E5.
    { u8. repeat (constructor; [lia|]). apply IH; [lia|assumption]. }
    destruct (inr 241 243 b0) eqn:E6.
    { u8. repeat (constructor; [lia|]). apply IH; [lia|assumption]. }
    destruct (b0 =? 244) eqn:E7; [|discriminate].
    u8. repeat (constructor; [lia|]). apply IH; [lia|assumption].
Qed.

Lemma utf8_valid_bytes s : utf8_valid s = true -> Forall (fun b => b < 256) s.
Proof. apply (utf8_valid_bytes_n (length s)). lia. Qed.

Lemma stab_insert_all_bytes l : forall t,
  Forall (fun b => b < 256) (stab_bytes t) -> Forall (fun s => utf8_valid s = true) l ->
  Forall (fun b => b < 256) (stab_bytes (stab_insert_all t l)).
Proof.
  induction l as [|s l IH]; intros t Ht Hl; unfold stab_insert_all; cbn [fold_left]; [exact Ht|].
  inversion Hl as [|s0 l0 Hs Hl']; subst.
  destruct (stab_insert t s) as [t1 off] eqn:E. cbn [fst]. fold (stab_insert_all t1 l).
  apply IH; [|exact Hl']. rewrite (stab_insert_bytes_exact _ _ _ _ E).
  apply Forall_app. split; [exact Ht|].
  destruct (is_empty s); [constructor|]. destruct (assoc_get s (st_index t)); [constructor|].
  apply Forall_app. split; [apply leb128_bytes_lt_256|apply utf8_valid_bytes; exact Hs].
Qed.

Lemma str_ok_utf8 s : str_ok s = true -> utf8_valid s = true.
Proof. unfold str_ok. intros H. apply andb_true_iff in H. apply H. Qed.

Lemma rec_strings_utf8 r : rec_ok r = true -> Forall (fun s => utf8_valid s = true) (rec_strings r).
Proof.
  destruct r as [k v|o ob|ty o ob|ty orig obf args ocls lm]; cbn [rec_ok rec_strings]; intros H.
  - destruct (str_eqb k source_file); [|constructor]. destruct v as [f|]; [|constructor].
    constructor; [apply str_ok_utf8; exact H|constructor].
  - apply andb_true_iff in H. destruct H as [H1 H2].
    constructor; [apply str_ok_utf8; exact H2|]. constructor; [apply str_ok_utf8; exact H1|constructor].
  - constructor.
  - apply andb_true_iff in H. destruct H as [H _].
    apply andb_true_iff in H. destruct H as [H R4]. apply andb_true_iff in H. destruct H as [H R3].
    apply andb_true_iff in H. destruct H as [R1 R2].
    cbn [app]. constructor; [apply str_ok_utf8; exact R2|]. constructor; [apply str_ok_utf8; exact R1|].
    apply Forall_app. split.
    + destruct ocls as [c|]; [|constructor]. constructor; [apply str_ok_utf8; exact R4|constructor].
    + constructor; [exact R3|constructor].
Qed.

Lemma final_bytes rs : dom32 rs = true -> Forall (fun b => b < 256) (stab_bytes (w_tab (wrun wstate_init rs))).
Proof.
  intros Hd. rewrite w_tab_wrun. apply stab_insert_all_bytes; [constructor|].
  unfold dom32 in Hd. rewrite forallb_forall in Hd.
  apply Forall_forall. intros s Hs. apply in_flat_map in Hs. destruct Hs as (r & Hr & Hs).
  exact (proj1 (Forall_forall _ _) (rec_strings_utf8 r (Hd r Hr)) s Hs).
Qed.

(* ------------------------------------------------------------------ *)
(* 2. generic facts about the flattened sections                        *)
(* ------------------------------------------------------------------ *)
Lemma fl_cs_In l : forall a b cr, In cr (fl_cs l a b) ->
  exists kc a' b', In kc l /\ cr = set_offs (cip_class (snd kc)) a' b'.
Proof.
  induction l as [|kc l IH]; intros a b cr H; cbn [fl_cs] in H; [contradiction|].
  destruct H as [<-|H].
  - exists kc, a, b. split; [left; reflexivity|reflexivity].
  - destruct (IH _ _ _ H) as (kc' & a' & b' & Hin & E). exists kc', a', b'. split; [right; exact Hin|exact E].
Qed.

Lemma fl_ms_le l kc : In kc l -> lenN (cls_ms kc) <= lenN (fl_ms l).
Proof.
  intros H. apply in_split in H. destruct H as (l1 & l2 & ->).
  rewrite fl_ms_app. unfold fl_ms at 2. cbn [flat_map]. rewrite !lenN_app. lia.
Qed.
Lemma fl_ps_le l kc : In kc l -> lenN (cls_ps kc) <= lenN (fl_ps l).
Proof.
  intros H. apply in_split in H. destruct H as (l1 & l2 & ->).
  rewrite fl_ps_app. unfold fl_ps at 2. cbn [flat_map]. rewrite !lenN_app. lia.
Qed.

(* member ranges tile a section: offsets are the running sums of the lengths *)
Fixpoint tiles (l : list (N * N)) (start total : N) : Prop :=
  match l with
  | [] => start = total
  | (o, n) :: r => o = start /\ tiles r (start + n) total
  end.

Lemma tiles_members l : forall a b,
  (forall kc, In kc l -> c_mlen (cip_class (snd kc)) = lenN (cls_ms kc)) ->
  a + lenN (fl_ms l) < U32 ->
  tiles (map (fun c => (c_moff c, c_mlen c)) (fl_cs l a b)) a (a + lenN (fl_ms l)).
Proof.
  induction l as [|kc l IH]; intros a b Hlen Hlt; cbn [fl_cs map tiles].
  - unfold fl_ms. cbn [flat_map]. rewrite lenN_nil. lia.
  - unfold fl_ms in *. cbn [flat_map] in *. rewrite lenN_app in *. cbn [set_offs c_moff c_mlen]. split.
    + apply u32_small. lia.
    + rewrite (Hlen kc (or_introl eq_refl)), N.add_assoc. apply IH.
      * intros kc' H'. apply Hlen. right. exact H'.
      * lia.
Qed.

Lemma tiles_params l : forall a b,
  (forall kc, In kc l -> c_plen (cip_class (snd kc)) = lenN (cls_ps kc)) ->
  b + lenN (fl_ps l) < U32 ->
  tiles (map (fun c => (c_poff c, c_plen c)) (fl_cs l a b)) b (b + lenN (fl_ps l)).
Proof.
  induction l as [|kc l IH]; intros a b Hlen Hlt; cbn [fl_cs map tiles].
  - unfold fl_ps. cbn [flat_map]. rewrite lenN_nil. lia.
  - unfold fl_ps in *. cbn [flat_map] in *. rewrite lenN_app in *. cbn [set_offs c_poff c_plen]. split.
    + apply u32_small. lia.
    + rewrite (Hlen kc (or_introl eq_refl)), N.add_assoc. apply IH.
      * intros kc' H'. apply Hlen. right. exact H'.
      * lia.
Qed.

Lemma count_members l : forall a,
  (forall kc, In kc l -> c_mlen (cip_class (snd kc)) = lenN (cls_ms kc)) ->
  a + lenN (fl_ms l) < U32 ->
  fold_left (fun a c => u32 (a + c_mlen (cip_class (snd c)))) l a = a + lenN (fl_ms l).
Proof.
  induction l as [|kc l IH]; intros a Hlen Hlt; cbn [fold_left].
  - unfold fl_ms. cbn [flat_map]. rewrite lenN_nil. lia.
  - unfold fl_ms in *. cbn [flat_map] in *. rewrite lenN_app in *.
    rewrite (Hlen kc (or_introl eq_refl)), u32_small by lia.
    rewrite IH; [lia| |lia]. intros kc' H'. apply Hlen. right. exact H'.
Qed.

Lemma count_params l : forall a,
  (forall kc, In kc l -> c_plen (cip_class (snd kc)) = lenN (cls_ps kc)) ->
  a + lenN (fl_ps l) < U32 ->
  fold_left (fun a c => u32 (a + c_plen (cip_class (snd c)))) l a = a + lenN (fl_ps l).
Proof.
  induction l as [|kc l IH]; intros a Hlen Hlt; cbn [fold_left].
  - unfold fl_ps. cbn [flat_map]. rewrite lenN_nil. lia.
  - unfold fl_ps in *. cbn [flat_map] in *. rewrite lenN_app in *.
    rewrite (Hlen kc (or_introl eq_refl)), u32_small by lia.
    rewrite IH; [lia| |lia]. intros kc' H'. apply Hlen. right. exact H'.
Qed.

Lemma last_file_facts : forall body cf,
  last_file cf body = cf \/ exists k, In (RHeader k (last_file cf body)) body /\ str_eqb k source_file = true.
Proof.
  induction body as [|r body IH]; intros cf; cbn [last_file]; [left; reflexivity|].
  destruct r as [k v|o ob|ty o ob|ty orig obf args ocls lm].
  - destruct (str_eqb k source_file) eqn:E.
    + destruct (IH v) as [H|(k' & H1 & H2)].
      * right. exists k. rewrite H. split; [left; reflexivity|exact E].
      * right. exists k'. split; [right; exact H1|exact H2].
    + destruct (IH cf) as [H|(k' & H1 & H2)]; [left; exact H|].
      right. exists k'. split; [right; exact H1|exact H2].
  - destruct (IH cf) as [H|(k' & H1 & H2)]; [left; exact H|]. right. exists k'. split; [right; exact H1|exact H2].
  - destruct (IH cf) as [H|(k' & H1 & H2)]; [left; exact H|]. right. exists k'. split; [right; exact H1|exact H2].
  - destruct (IH cf) as [H|(k' & H1 & H2)]; [left; exact H|]. right. exists k'. split; [right; exact H1|exact H2].
Qed.

Lemma fl_cs_split l : forall a b cr, In cr (fl_cs l a b) ->
  exists lo kc hi, l = lo ++ [kc] ++ hi /\
    cr = set_offs (cip_class (snd kc)) (a + lenN (fl_ms lo)) (b + lenN (fl_ps lo)).
Proof.
  induction l as [|kc l IH]; intros a b cr H; cbn [fl_cs] in H; [contradiction|].
  destruct H as [<-|H].
  - exists [], kc, l. split; [reflexivity|]. unfold fl_ms, fl_ps. cbn [flat_map]. rewrite lenN_nil, !N.add_0_r. reflexivity.
  - destruct (IH _ _ _ H) as (lo & kc' & hi & -> & E). exists (kc :: lo), kc', hi. split; [reflexivity|].
    rewrite E. unfold fl_ms, fl_ps. cbn [flat_map]. rewrite !lenN_app, !N.add_assoc. reflexivity.
Qed.

Definition rd_name (sb : list N) (off : N) : list N :=
  match read_string sb off with Some s => s | None => [] end.

Lemma fl_cs_names sb l :
  Forall (fun kc => read_string sb (c_obf (cip_class (snd kc))) = Some (fst kc)) l ->
  forall a b, map (fun c => rd_name sb (c_obf c)) (fl_cs l a b) = map fst l.
Proof.
  intros H. induction H as [|kc l Hk _ IH]; intros a b; cbn [fl_cs map]; [reflexivity|].
  rewrite IH. f_equal. cbn [set_offs c_obf]. unfold rd_name. rewrite Hk. reflexivity.
Qed.

Definition off_ok (sb : list N) (off : N) : Prop := exists s0, read_string sb off = Some s0.
Definition off_opt (sb : list N) (off : N) : Prop := off = MAX32 \/ off_ok sb off.

Definition class_strings_ok (sb : list N) (c : classrec) : Prop :=
  off_ok sb (c_obf c) /\ off_ok sb (c_orig c) /\ off_opt sb (c_file c).
Definition member_strings_ok (sb : list N) (m : member) : Prop :=
  off_ok sb (m_obf m) /\ off_ok sb (m_oname m) /\ off_opt sb (m_ocls m) /\ off_opt sb (m_ofile m) /\
  off_opt sb (m_params m).

Lemma wok x : x < U32 -> word_ok x = true.
Proof. intros H. unfold word_ok. apply N.ltb_lt. exact H. Qed.

Section Layout.
Variable rs : list record.
Hypothesis Hdom : dom32 rs = true.
Hypothesis Hsz : sizes_ok rs = true.
Let st := wrun wstate_init rs.
Let T := w_tab st.
Let L := flush st.
Let s := write_struct rs.
Let sb := stab_bytes T.

Local Lemma HT : stab_inv T.
Proof. apply Tinv. Qed.
Local Lemma HS : lenN (stab_bytes T) < U32.
Proof. apply (Tsz rs Hsz). Qed.

Lemma kc_facts kc : In kc L ->
  exists b, In b (blocks rs) /\ cip_rep T (snd kc) b /\ fst kc = b_obf b /\
    c_mlen (cip_class (snd kc)) = lenN (cls_ms kc) /\ c_plen (cip_class (snd kc)) = lenN (cls_ps kc).
Proof.
  intros Hin. destruct (proj1 (Forall_forall _ _) (L_classes rs Hdom) kc Hin) as (b & Hb & Hr & Hk).
  exists b. split; [exact Hb|]. split; [exact Hr|]. split; [exact Hk|].
  destruct Hr as (_ & _ & _ & Hmem & Hbyp & Hml & Hpl & _).
  destruct (sizes_facts rs Hsz) as (_ & _ & Sm & Sp). fold st in Sm, Sp. fold L in Sm, Sp.
  pose proof (fl_ms_le _ kc Hin) as Lm. pose proof (fl_ps_le _ kc Hin) as Lp.
  assert (Em : lenN (cls_ms kc) = lenN (block_entries b)).
  { unfold cls_ms. rewrite Hmem, flat_map_snd. unfold lenN. rewrite push_all_nil_length. reflexivity. }
  assert (Ep : lenN (cls_ps kc) = lenN (block_param_entries b)).
  { unfold cls_ps. rewrite Hbyp, flat_map_snd. unfold lenN. rewrite push_all_nil_length. reflexivity. }
  split.
  - rewrite Hml, <- Em. apply u32_small. lia.
  - rewrite Hpl, <- Ep. apply u32_small. lia.
Qed.

Lemma file_facts b : In b (blocks rs) ->
  ostr_ok (last_file None (b_body b)) = true /\ oinserted T (last_file None (b_body b)).
Proof.
  intros Hb. destruct (last_file_facts (b_body b) None) as [->|(k & Hin & Ek)]; [split; [reflexivity|exact I]|].
  destruct (rec_facts rs Hdom (RHeader k (last_file None (b_body b)))) as [Hok Hins].
  { apply (blocks_In rs b Hb). right. exact Hin. }
  cbn [rec_ok rec_strings] in Hok, Hins. rewrite Ek in Hok, Hins.
  destruct (last_file None (b_body b)) as [f|]; [|split; [reflexivity|exact I]].
  split; [exact Hok|]. apply Hins. left. reflexivity.
Qed.

(* members of the two sections come from in-domain entries *)
Lemma member_in_ms m : In m (fl_ms L) ->
  exists b e, In b (blocks rs) /\ In e (block_entries b) /\ m = member_of T e.
Proof.
  intros H. apply in_flat_map in H. destruct H as (kc & Hkc & Hm).
  destruct (kc_facts kc Hkc) as (b & Hb & Hr & _).
  destruct Hr as (_ & _ & _ & Hmem & _).
  unfold cls_ms in Hm. rewrite Hmem, flat_map_snd in Hm. apply in_concat in Hm.
  destruct Hm as (vs & Hvs & Hm). apply in_map_iff in Hvs. destruct Hvs as ([k vs'] & <- & Hg). cbn [snd] in Hm.
  destruct (push_all_nil_In lex_cmp lex_cmp_eq e_obf (member_of T) _ k vs' m Hg Hm) as (e & He & _ & ->).
  exists b, e. auto.
Qed.

Lemma member_in_ps m : In m (fl_ps L) ->
  exists b e, In b (blocks rs) /\ In e (block_entries b) /\ m = member_of T e.
Proof.
  intros H. apply in_flat_map in H. destruct H as (kc & Hkc & Hm).
  destruct (kc_facts kc Hkc) as (b & Hb & Hr & _).
  destruct Hr as (_ & _ & _ & _ & Hbyp & _).
  unfold cls_ps in Hm. rewrite Hbyp, flat_map_snd in Hm. apply in_concat in Hm.
  destruct Hm as (vs & Hvs & Hm). apply in_map_iff in Hvs. destruct Hvs as ([k vs'] & <- & Hg). cbn [snd] in Hm.
  destruct (push_all_nil_In pair_cmp pair_cmp_eq pkey (member_of T) _ k vs' m Hg Hm) as (e & He & _ & ->).
  exists b, e. split; [exact Hb|]. split; [|reflexivity].
  unfold block_param_entries in He. apply dedup_incl in He. apply filter_In in He. apply He.
Qed.

Lemma entry_in_good b e : In b (blocks rs) -> In e (block_entries b) -> entry_good T e.
Proof.
  intros Hb He. destruct (block_facts rs Hdom b Hb) as (_ & _ & _ & _ & Hg).
  exact (proj1 (Forall_forall _ _) Hg e He).
Qed.

Lemma member_of_wf e : entry_good T e -> forallb word_ok (member_words (member_of T e)) = true.
Proof.
  intros [Hd _]. unfold entry_dom in Hd.
  do 8 (apply andb_true_iff in Hd; let H := fresh "D" in destruct Hd as [Hd H]).
  unfold num_ok in *. apply N.ltb_lt in D0, D1, D2.
  assert (HM : MAX32 < U32) by (vm_compute; reflexivity).
  unfold member_words, member_of. cbn [forallb m_obf m_start m_end m_ocls m_ofile m_oname m_os m_oe m_params].
  rewrite !(wok _ (soff_lt T _)), !(wok _ (ooff_lt T _)).
  rewrite (wok (e_start e)), (wok (e_end e)), (wok (e_os e)) by lia.
  rewrite (wok (oe_word (e_oe e))); [reflexivity|].
  destruct (e_oe e) as [y|]; cbn [oe_word]; [|exact HM].
  apply andb_true_iff in D. destruct D as [Dy _]. apply N.ltb_lt in Dy. lia.
Qed.

Lemma member_of_strings e : entry_good T e -> member_strings_ok sb (member_of T e).
Proof.
  intros [Hd (I1 & I2 & I3 & I4 & I5)]. unfold entry_dom in Hd.
  do 8 (apply andb_true_iff in Hd; let H := fresh "D" in destruct Hd as [Hd H]).
  unfold member_strings_ok, member_of. cbn [m_obf m_ocls m_ofile m_oname m_params].
  split; [|split; [|split; [|split]]].
  - exists (e_obf e). apply (rd_ok T HT HS); assumption.
  - exists (e_orig e). apply (rd_ok T HT HS); assumption.
  - destruct (e_ocls e) as [c|]; cbn [ooff]; [right|left; reflexivity].
    exists c. apply (rd_ok T HT HS); assumption.
  - destruct (e_file e) as [f|]; cbn [ooff]; [right|left; reflexivity].
    exists f. apply (rd_ok T HT HS); assumption.
  - destruct (e_args e) as [|a args] eqn:Ea; [left; reflexivity|right].
    exists (a :: args). apply (rd_ok T HT HS); [exact I3|]. unfold str_ok. cbn [is_empty negb andb]. exact D5.
Qed.

(* ---------------- struct_wf ---------------- *)
Theorem cache_struct_wf : struct_wf s = true.
Proof.
  destruct (write_struct_eq rs) as (E1 & E2 & E3 & E4 & E5 & E6). cbv zeta in *.
  destruct (sizes_facts rs Hsz) as (S0 & S1 & S2 & S3).
  assert (Hml : forall kc, In kc L -> c_mlen (cip_class (snd kc)) = lenN (cls_ms kc)).
  { intros kc Hkc. destruct (kc_facts kc Hkc) as (b & _ & _ & _ & H & _). exact H. }
  assert (Hpl : forall kc, In kc L -> c_plen (cip_class (snd kc)) = lenN (cls_ps kc)).
  { intros kc Hkc. destruct (kc_facts kc Hkc) as (b & _ & _ & _ & _ & H). exact H. }
  assert (H1 : forallb (fun c => forallb word_ok (class_words c)) (cs_classes s) = true).
  { unfold s. rewrite E1. apply forallb_forall. intros cr Hcr.
    apply fl_cs_In in Hcr. destruct Hcr as (kc & a & b0 & Hkc & ->).
    destruct (kc_facts kc Hkc) as (b & Hb & Hr & _ & Em & Ep).
    destruct Hr as (_ & Ho & Hor & _ & _ & Hm & Hp & Hf).
    unfold class_words, set_offs. cbn [forallb c_obf c_orig c_file c_moff c_mlen c_poff c_plen].
    rewrite Ho, Hor, Hf, Hm, Hp.
    rewrite !(wok _ (soff_lt T _)), (wok _ (ooff_lt T _)), !(wok _ (u32_lt _)). reflexivity. }
  assert (H2 : forallb (fun m => forallb word_ok (member_words m)) (cs_members s) = true).
  { unfold s. rewrite E2. apply forallb_forall. intros m Hm.
    destruct (member_in_ms m Hm) as (b & e & Hb & He & ->). apply member_of_wf. eapply entry_in_good; eassumption. }
  assert (H3 : forallb (fun m => forallb word_ok (member_words m)) (cs_byparams s) = true).
  { unfold s. rewrite E3. apply forallb_forall. intros m Hm.
    destruct (member_in_ps m Hm) as (b & e & Hb & He & ->). apply member_of_wf. eapply entry_in_good; eassumption. }
  assert (H4 : forallb (fun b => b <? 256) (cs_strings s) = true).
  { unfold s. rewrite E4. apply forallb_forall. intros x Hx. apply N.ltb_lt.
    exact (proj1 (Forall_forall _ _) (final_bytes rs Hdom) x Hx). }
  assert (H5 : (lenN (cs_classes s) <? U32) = true) by (unfold s; rewrite E1; apply N.ltb_lt; exact S1).
  assert (H6 : (lenN (cs_strings s) <? U32) = true) by (unfold s; rewrite E4; apply N.ltb_lt; exact S0).
  assert (H7 : (cs_num_members s =? lenN (cs_members s)) = true).
  { unfold s. rewrite E5, E2. apply N.eqb_eq. rewrite count_members; [apply N.add_0_l|exact Hml|rewrite N.add_0_l; exact S2]. }
  assert (H8 : (lenN (cs_members s) <? U32) = true) by (unfold s; rewrite E2; apply N.ltb_lt; exact S2).
  assert (H9 : (cs_num_byparams s =? lenN (cs_byparams s)) = true).
  { unfold s. rewrite E6, E3. apply N.eqb_eq. rewrite count_params; [apply N.add_0_l|exact Hpl|rewrite N.add_0_l; exact S3]. }
  assert (H10 : (lenN (cs_byparams s) <? U32) = true) by (unfold s; rewrite E3; apply N.ltb_lt; exact S3).
  unfold struct_wf. rewrite H1, H2, H3, H4, H5, H6, H7, H8, H9, H10. reflexivity.
Qed.

(* ---------------- layout invariants ---------------- *)
Theorem layout_classes_sorted :
  Forall (fun c => off_ok (cs_strings s) (c_obf c)) (cs_classes s) /\
  StronglySorted (fun a b => lex_cmp a b = Lt) (map (fun c => rd_name (cs_strings s) (c_obf c)) (cs_classes s)).
Proof.
  destruct (write_struct_eq rs) as (E1 & _ & _ & E4 & _). cbv zeta in *. unfold s. rewrite E1, E4.
  pose proof (L_readable rs Hdom Hsz) as Hrd. split.
  - apply Forall_forall. intros cr Hcr. apply fl_cs_In in Hcr. destruct Hcr as (kc & a & b0 & Hkc & ->).
    cbn [set_offs c_obf]. exists (fst kc). exact (proj1 (Forall_forall _ _) Hrd kc Hkc).
  - rewrite (fl_cs_names _ _ Hrd). apply StronglySorted_map. exact (L_sorted rs Hdom).
Qed.

Theorem layout_tiling :
  tiles (map (fun c => (c_moff c, c_mlen c)) (cs_classes s)) 0 (lenN (cs_members s)) /\
  tiles (map (fun c => (c_poff c, c_plen c)) (cs_classes s)) 0 (lenN (cs_byparams s)).
Proof.
  destruct (write_struct_eq rs) as (E1 & E2 & E3 & _). cbv zeta in *. unfold s. rewrite E1, E2, E3.
  destruct (sizes_facts rs Hsz) as (_ & _ & S2 & S3). split.
  - rewrite <- (N.add_0_l (lenN (fl_ms _))). apply tiles_members.
    + intros kc Hkc. destruct (kc_facts kc Hkc) as (b & _ & _ & _ & H & _). exact H.
    + rewrite N.add_0_l. exact S2.
  - rewrite <- (N.add_0_l (lenN (fl_ps _))). apply tiles_params.
    + intros kc Hkc. destruct (kc_facts kc Hkc) as (b & _ & _ & _ & _ & H). exact H.
    + rewrite N.add_0_l. exact S3.
Qed.

Theorem layout_strings :
  Forall (class_strings_ok (cs_strings s)) (cs_classes s) /\
  Forall (member_strings_ok (cs_strings s)) (cs_members s) /\
  Forall (member_strings_ok (cs_strings s)) (cs_byparams s).
Proof.
  destruct (write_struct_eq rs) as (E1 & E2 & E3 & E4 & _). cbv zeta in *. unfold s. rewrite E1, E2, E3, E4.
  split; [|split].
  - apply Forall_forall. intros cr Hcr. apply fl_cs_In in Hcr. destruct Hcr as (kc & a & b0 & Hkc & ->).
    destruct (kc_facts kc Hkc) as (b & Hb & Hr & _).
    destruct Hr as (_ & Ho & Hor & _ & _ & _ & _ & Hf).
    destruct (block_facts rs Hdom b Hb) as (Hoo & Hobo & Hoi & Hobi & _).
    destruct (file_facts b Hb) as (Hfo & Hfi).
    unfold class_strings_ok. cbn [set_offs c_obf c_orig c_file]. rewrite Ho, Hor, Hf. split; [|split].
    + exists (b_obf b). apply (rd_ok T HT HS); assumption.
    + exists (b_orig b). apply (rd_ok T HT HS); assumption.
    + destruct (last_file None (b_body b)) as [f|]; cbn [ooff]; [right|left; reflexivity].
      exists f. apply (rd_ok T HT HS); assumption.
  - apply Forall_forall. intros m Hm. destruct (member_in_ms m Hm) as (b & e & Hb & He & ->).
    apply member_of_strings. eapply entry_in_good; eassumption.
  - apply Forall_forall. intros m Hm. destruct (member_in_ps m Hm) as (b & e & Hb & He & ->).
    apply member_of_strings. eapply entry_in_good; eassumption.
Qed.

Lemma kc_block kc : In kc L ->
  exists b, block_of rs (fst kc) = Some b /\ cip_rep T (snd kc) b /\ b_obf b = fst kc.
Proof.
  intros Hin. pose proof (class_lookup rs Hdom (fst kc)) as Hl.
  destruct (block_of rs (fst kc)) as [b|] eqn:Eb.
  - destruct Hl as (c & lo & hi & HL & Hr & Hlo & Hhi). exists b. split; [reflexivity|].
    assert (E : kc = (fst kc, c)).
    { fold st in HL. fold L in HL. rewrite HL in Hin. apply in_app_or in Hin. destruct Hin as [Hin|Hin].
      - exfalso. rewrite Forall_forall in Hlo. specialize (Hlo kc Hin). rewrite lex_cmp_refl in Hlo. discriminate.
      - cbn [app] in Hin. destruct Hin as [<-|Hin]; [reflexivity|].
        exfalso. rewrite Forall_forall in Hhi. specialize (Hhi kc Hin). rewrite lex_cmp_refl in Hhi. discriminate. }
    split; [rewrite E; exact Hr|]. apply (block_of_In rs (fst kc) b Eb).
  - exfalso. apply (Hl kc Hin). apply lex_cmp_refl.
Qed.

Theorem layout_groups : forall cr, In cr (cs_classes s) ->
  exists b, read_string (cs_strings s) (c_obf cr) = Some (b_obf b) /\ block_of rs (b_obf b) = Some b /\
    let G := push_all lex_cmp e_obf (member_of T) (block_entries b) [] in
    let P := push_all pair_cmp pkey (member_of T) (block_param_entries b) [] in
    slice (cs_members s) (c_moff cr) (c_mlen cr) = Some (concat (map snd G)) /\
    slice (cs_byparams s) (c_poff cr) (c_plen cr) = Some (concat (map snd P)) /\
    StronglySorted (fun a b => lex_cmp (fst a) (fst b) = Lt) G /\
    StronglySorted (fun a b => pair_cmp (fst a) (fst b) = Lt) P /\
    Forall (fun g => snd g <> [] /\
              Forall (fun m => read_string (cs_strings s) (m_obf m) = Some (fst g)) (snd g)) G /\
    Forall (fun g => snd g <> [] /\
              Forall (fun m => read_string (cs_strings s) (m_obf m) = Some (fst (fst g)) /\
                               rd_name (cs_strings s) (m_params m) = snd (fst g)) (snd g)) P /\
    (forall t, group_of lex_cmp t G = map (member_of T) (filter (by_obf t) (block_entries b))) /\
    (forall t p, group_of pair_cmp (t, p) P =
                 map (member_of T) (filter (by_obf_args t p) (block_param_entries b))).
Proof.
  intros cr Hcr.
  destruct (write_struct_eq rs) as (E1 & E2 & E3 & E4 & _). cbv zeta in *. unfold s in *. rewrite E1 in Hcr.
  rewrite E2, E3, E4. clear E1 E2 E3 E4.
  apply fl_cs_split in Hcr. destruct Hcr as (lo & kc & hi & HL & ->). rewrite !N.add_0_l.
  assert (Hkc : In kc L). { unfold L, st. rewrite HL. apply in_or_app. right. left. reflexivity. }
  destruct (kc_block kc Hkc) as (b & Hbo & Hr & Hk).
  destruct (kc_facts kc Hkc) as (b' & _ & _ & _ & Hml & Hpl). clear b'.
  assert (Hbin : In b (blocks rs)) by (apply (block_of_In rs _ b Hbo)).
  destruct (block_facts rs Hdom b Hbin) as (_ & Hobo & _ & Hobi & Hgood).
  pose proof (param_entries_good T b Hgood) as Hpgood.
  destruct Hr as (_ & Ho & _ & Hmem & Hbyp & _).
  destruct (sizes_facts rs Hsz) as (_ & _ & Sm & Sp).
  rewrite HL, !fl_ms_app in Sm. rewrite HL, !fl_ps_app in Sp.
  unfold fl_ms at 2 in Sm. unfold fl_ps at 2 in Sp. cbn [flat_map] in Sm, Sp. rewrite app_nil_r in Sm, Sp.
  rewrite !lenN_app in Sm, Sp.
  exists b. cbn [set_offs c_obf c_moff c_mlen c_poff c_plen]. split; [|split].
  - rewrite Ho. apply (rd_ok T HT HS); assumption.
  - rewrite Hk. exact Hbo.
  - cbv zeta. split; [|split; [|split; [|split; [|split; [|split; [|split]]]]]].
    + rewrite HL, !fl_ms_app. unfold fl_ms at 2. cbn [flat_map]. rewrite app_nil_r.
      rewrite Hml, u32_small by lia.
      pose proof (slice_mid (fun x : member => x) (fl_ms lo) (cls_ms kc) (fl_ms hi)) as Hsl.
      rewrite !map_id in Hsl. rewrite Hsl. unfold cls_ms. rewrite Hmem, flat_map_snd. reflexivity.
    + rewrite HL, !fl_ps_app. unfold fl_ps at 2. cbn [flat_map]. rewrite app_nil_r.
      rewrite Hpl, u32_small by lia.
      pose proof (slice_mid (fun x : member => x) (fl_ps lo) (cls_ps kc) (fl_ps hi)) as Hsl.
      rewrite !map_id in Hsl. rewrite Hsl. unfold cls_ps. rewrite Hbyp, flat_map_snd. reflexivity.
    + apply (push_all_nil_sorted lex_cmp lex_cmp_antisym lex_cmp_trans).
    + apply (push_all_nil_sorted pair_cmp pair_cmp_antisym pair_cmp_trans).
    + apply Forall_forall. intros [k vs] Hg. cbn [fst snd]. split.
      * exact (proj1 (Forall_forall _ _) (push_all_nonempty lex_cmp e_obf (member_of T) _ [] (Forall_nil _)) _ Hg).
      * apply Forall_forall. intros m Hm.
        destruct (push_all_nil_In lex_cmp lex_cmp_eq e_obf (member_of T) _ k vs m Hg Hm) as (e & He & <- & ->).
        pose proof (entry_good_view T HT HS e (proj1 (Forall_forall _ _) Hgood e He)) as V.
        apply (ev_obf T e V).
    + apply Forall_forall. intros [k vs] Hg. cbn [fst snd]. split.
      * exact (proj1 (Forall_forall _ _) (push_all_nonempty pair_cmp pkey (member_of T) _ [] (Forall_nil _)) _ Hg).
      * apply Forall_forall. intros m Hm.
        destruct (push_all_nil_In pair_cmp pair_cmp_eq pkey (member_of T) _ k vs m Hg Hm) as (e & He & <- & ->).
        pose proof (entry_good_view T HT HS e (proj1 (Forall_forall _ _) Hpgood e He)) as V.
        cbn [pkey fst snd member_of m_obf m_params]. split; [apply (ev_obf T e V)|apply (ev_args T e V)].
    + intros t. rewrite (push_all_nil_group lex_cmp lex_cmp_eq lex_cmp_antisym lex_cmp_trans).
      f_equal. apply filter_ext. intros e. apply is_eq_lex.
    + intros t p. rewrite (push_all_nil_group pair_cmp pair_cmp_eq pair_cmp_antisym pair_cmp_trans).
      f_equal. apply filter_ext. intros e. apply is_eq_pair.
Qed.

End Layout.

Check cache_struct_wf.
Check layout_classes_sorted.
Check layout_tiling.
Check layout_groups.
Check layout_strings.
Print Assumptions cache_struct_wf.
Print Assumptions layout_classes_sorted.
Print Assumptions layout_tiling.
Print Assumptions layout_groups.
Print Assumptions layout_strings.

(* the hypotheses are satisfiable on a non-trivial record list (CacheProofs.Ex.rs_ex) *)
Example layout_hyp :
  dom32 Ex.rs_ex = true /\ sizes_ok Ex.rs_ex = true /\ struct_wf (write_struct Ex.rs_ex) = true /\
  map (fun c => (c_moff c, c_mlen c, c_poff c, c_plen c)) (cs_classes (write_struct Ex.rs_ex)) =
    [(0, 8, 0, 4); (8, 3, 4, 2)] /\
  map (fun c => rd_name (cs_strings (write_struct Ex.rs_ex)) (c_obf c)) (cs_classes (write_struct Ex.rs_ex)) =
    [[120]; [121]].
Proof. vm_compute. repeat split; reflexivity. Qed.
