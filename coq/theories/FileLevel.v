(* FileLevel.v — whole-file corollaries of the line-level round trip (C05), the record isolation
   theorem (C06) and the metadata specifications (C19).

   Group 1.  A file is a list of elements, each with its own terminator (LF, CR or CRLF).  An element
   is either a line printed from the documented grammar or "noise": an arbitrary byte string that
   contributes no record (blank lines, unparseable lines, comment-free garbage ...).  The records of
   the printed file are exactly the records of its grammar lines, in order; hence they do not depend
   on the terminators chosen, on the presence of noise, or on whether the last line is terminated;
   hence neither does any retrace answer of Spec.v.

   Group 2.  [has_line_info] and [summarize] are functions of [recs b] (error items are ignored),
   hence local to lines; [is_valid] is not (error items use up the 50-item window). *)
From Coq Require Import Lia.
From PG Require Import Base Mapping MappingProofs DecimalLemmas Roundtrip RoundtripProofs IsolationProofs
                       Spec Metadata MetadataProofs.

(* ====================================================================== *)
(* 0. definitions                                                           *)
(* ====================================================================== *)

Inductive felem :=
| FLine (a : line_ast)       (* a line of the documented grammar *)
| FNoise (l : list N).       (* any byte string with [recs l = []] *)

(* a terminator: one of [10], [13], [13;10] *)
Definition terminators : list (list N) := [[10]; [13]; [13; 10]].

Definition print_elem (e : felem) : list N :=
  match e with FLine a => print_line a | FNoise l => l end.

Fixpoint print_file (f : list (felem * list N)) : list N :=
  match f with
  | [] => []
  | (e, t) :: f' => print_elem e ++ t ++ print_file f'
  end.

(* the records an element denotes *)
Definition elem_records (e : felem) : list record :=
  match e with FLine a => [record_of a] | FNoise _ => [] end.
Definition file_records (f : list (felem * list N)) : list record :=
  flat_map (fun p : felem * list N => elem_records (fst p)) f.

(* the grammar lines of a file, in order *)
Definition elem_lines (e : felem) : list line_ast :=
  match e with FLine a => [a] | FNoise _ => [] end.
Definition file_lines (f : list (felem * list N)) : list line_ast :=
  flat_map (fun p : felem * list N => elem_lines (fst p)) f.

(* well-formedness, executable *)
Definition wf_elem (e : felem) : bool :=
  match e with FLine a => wf_line a | FNoise l => is_empty (recs l) end.
Definition is_term (t : list N) : bool := existsb (str_eqb t) terminators.
Definition wf_file (f : list (felem * list N)) : bool :=
  forallb (fun p : felem * list N => wf_elem (fst p) && is_term (snd p)) f.

(* ... and as a proposition *)
Definition wf_elem_prop (e : felem) : Prop :=
  match e with FLine a => wf_line a = true | FNoise l => recs l = [] end.
Definition wf_file_prop (f : list (felem * list N)) : Prop :=
  Forall (fun p : felem * list N => wf_elem_prop (fst p) /\ In (snd p) terminators) f.

Lemma is_empty_nil {A} (l : list A) : is_empty l = true <-> l = [].
Proof. destruct l; cbn [is_empty]; split; intros H; congruence. Qed.

Lemma wf_elem_iff e : wf_elem e = true <-> wf_elem_prop e.
Proof. destruct e as [a|l]; cbn [wf_elem wf_elem_prop]; [reflexivity|apply is_empty_nil]. Qed.

Lemma is_term_iff t : is_term t = true <-> In t terminators.
Proof.
  unfold is_term. rewrite existsb_exists. split.
  - intros [x [Hin Hx]]. apply md_str_eqb_eq in Hx. subst x. exact Hin.
  - intros Hin. exists t. split; [exact Hin|apply md_str_eqb_eq; reflexivity].
Qed.

Lemma wf_file_iff f : wf_file f = true <-> wf_file_prop f.
Proof.
  unfold wf_file, wf_file_prop. rewrite forallb_forall, Forall_forall.
  split; intros H p Hp; specialize (H p Hp).
  - apply andb_true_iff in H. destruct H as [H1 H2].
    split; [apply wf_elem_iff; exact H1|apply is_term_iff; exact H2].
  - destruct H as [H1 H2]. apply andb_true_iff.
    split; [apply wf_elem_iff; exact H1|apply is_term_iff; exact H2].
Qed.

Lemma wf_file_cons e t f :
  wf_file ((e, t) :: f) = true <-> wf_elem e = true /\ In t terminators /\ wf_file f = true.
Proof.
  unfold wf_file. cbn [forallb fst snd]. rewrite !andb_true_iff, is_term_iff. tauto.
Qed.

Lemma wf_file_app f g : wf_file (f ++ g) = wf_file f && wf_file g.
Proof. unfold wf_file. apply forallb_app. Qed.

Lemma print_file_app f g : print_file (f ++ g) = print_file f ++ print_file g.
Proof.
  induction f as [|[e t] f IH]; [reflexivity|].
  cbn [app print_file]. rewrite IH, !app_assoc. reflexivity.
Qed.

Lemma file_records_app f g : file_records (f ++ g) = file_records f ++ file_records g.
Proof. unfold file_records. apply flat_map_app. Qed.

Lemma file_lines_app f g : file_lines (f ++ g) = file_lines f ++ file_lines g.
Proof. unfold file_lines. apply flat_map_app. Qed.

(* the records are the images of the grammar lines *)
Lemma file_records_lines f : file_records f = map record_of (file_lines f).
Proof.
  induction f as [|[e t] f IH]; [reflexivity|].
  unfold file_records, file_lines in *. cbn [flat_map fst]. rewrite map_app, IH.
  destruct e as [a|l]; reflexivity.
Qed.

(* ====================================================================== *)
(* 1. Group 1: a printed file parses to exactly its records                 *)
(* ====================================================================== *)

(* one unterminated grammar line *)
Lemma items_print_line a : wf_line a = true -> items (print_line a) = [IOk (record_of a)].
Proof.
  intros H. destruct (print_line_hd a H) as (x & l & E & _).
  rewrite items_cons by (rewrite E; discriminate).
  pose proof (parse_record_print a [] H eq_refl) as P. rewrite app_nil_r in P.
  rewrite P. reflexivity.
Qed.

Lemma recs_print_line a : wf_line a = true -> recs (print_line a) = [record_of a].
Proof. intros H. unfold recs. rewrite (items_print_line a H). reflexivity. Qed.

(* one unterminated element *)
Lemma recs_print_elem e : wf_elem e = true -> recs (print_elem e) = elem_records e.
Proof.
  destruct e as [a|l]; cbn [wf_elem print_elem elem_records]; intros H.
  - apply recs_print_line. exact H.
  - apply is_empty_nil. exact H.
Qed.

(* one terminated element followed by anything *)
Lemma recs_elem_cons e t rest :
  wf_elem e = true -> In t terminators ->
  recs (print_elem e ++ t ++ rest) = elem_records e ++ recs rest.
Proof.
  intros He Ht. rewrite (recs_isolation (print_elem e) rest t Ht).
  rewrite (recs_print_elem e He). reflexivity.
Qed.

(* general form: a well-formed file followed by any byte string *)
Lemma recs_print_file_app f : forall rest,
  wf_file f = true -> recs (print_file f ++ rest) = file_records f ++ recs rest.
Proof.
  induction f as [|[e t] f IH]; intros rest H; [reflexivity|].
  apply wf_file_cons in H. destruct H as [He [Ht Hf]].
  cbn [print_file]. rewrite <- !app_assoc.
  rewrite (recs_elem_cons e t _ He Ht), (IH rest Hf).
  unfold file_records. cbn [flat_map fst]. rewrite app_assoc. reflexivity.
Qed.

Theorem recs_print_file : forall f,
  wf_file f = true ->
  recs (print_file f) =
  flat_map (fun p : felem * list N =>
              match fst p with FLine a => [record_of a] | FNoise _ => [] end) f.
Proof.
  intros f H. pose proof (recs_print_file_app f [] H) as P.
  rewrite !app_nil_r in P. exact P.
Qed.
Print Assumptions recs_print_file.

(* the statement with the pattern-matching lambda of the task, literally *)
Corollary recs_print_file' : forall f,
  wf_file f = true ->
  recs (print_file f) =
  flat_map (fun '(e, _) => match e with FLine a => [record_of a] | FNoise _ => [] end) f.
Proof.
  intros f H. rewrite (recs_print_file f H).
  induction f as [|[e t] f IH]; [reflexivity|].
  apply wf_file_cons in H. destruct H as [_ [_ Hf]].
  cbn [flat_map fst]. rewrite (IH Hf). reflexivity.
Qed.
Print Assumptions recs_print_file'.

Corollary recs_print_file_lines : forall f,
  wf_file f = true -> recs (print_file f) = map record_of (file_lines f).
Proof. intros f H. rewrite (recs_print_file f H). apply file_records_lines. Qed.
Print Assumptions recs_print_file_lines.

(* the last line may lack its terminator *)
Theorem recs_print_file_last : forall f e,
  wf_file f = true -> wf_elem e = true ->
  recs (print_file f ++ print_elem e) = recs (print_file f) ++ elem_records e.
Proof.
  intros f e Hf He.
  rewrite (recs_print_file_app f _ Hf), (recs_print_elem e He).
  rewrite (recs_print_file f Hf). reflexivity.
Qed.
Print Assumptions recs_print_file_last.

(* ... so a terminator after the last element is optional *)
Corollary recs_last_terminator_optional : forall f e t,
  wf_file f = true -> wf_elem e = true -> In t terminators ->
  recs (print_file (f ++ [(e, t)])) = recs (print_file f ++ print_elem e).
Proof.
  intros f e t Hf He Ht.
  rewrite (recs_print_file_last f e Hf He).
  assert (W : wf_file (f ++ [(e, t)]) = true).
  { rewrite wf_file_app, Hf. apply wf_file_cons. repeat split; assumption. }
  rewrite (recs_print_file _ W), (recs_print_file f Hf).
  change (flat_map _ (f ++ [(e, t)])) with (file_records (f ++ [(e, t)])).
  rewrite file_records_app. unfold file_records at 2. cbn [flat_map fst]. rewrite app_nil_r.
  reflexivity.
Qed.
Print Assumptions recs_last_terminator_optional.

Lemma file_records_fst f : file_records f = flat_map elem_records (map fst f).
Proof.
  induction f as [|[e t] f IH]; [reflexivity|].
  unfold file_records in *. cbn [map flat_map fst]. rewrite IH. reflexivity.
Qed.

(* same elements, different (valid) terminators *)
Theorem recs_terminator_independent : forall f1 f2,
  wf_file f1 = true -> wf_file f2 = true -> map fst f1 = map fst f2 ->
  recs (print_file f1) = recs (print_file f2).
Proof.
  intros f1 f2 H1 H2 E. rewrite (recs_print_file f1 H1), (recs_print_file f2 H2).
  change (file_records f1 = file_records f2).
  rewrite !file_records_fst, E. reflexivity.
Qed.
Print Assumptions recs_terminator_independent.

(* re-terminating a file: replace every terminator by a fixed one *)
Definition reterminate (t : list N) (f : list (felem * list N)) : list (felem * list N) :=
  map (fun p : felem * list N => (fst p, t)) f.

Lemma wf_reterminate t f : In t terminators -> wf_file f = true -> wf_file (reterminate t f) = true.
Proof.
  intros Ht. induction f as [|[e t0] f IH]; intros H; [reflexivity|].
  apply wf_file_cons in H. destruct H as [He [_ Hf]].
  cbn [reterminate map fst]. apply wf_file_cons. repeat split; [exact He|exact Ht|apply IH; exact Hf].
Qed.

Corollary recs_reterminate : forall t f,
  In t terminators -> wf_file f = true ->
  recs (print_file (reterminate t f)) = recs (print_file f).
Proof.
  intros t f Ht Hf. apply recs_terminator_independent.
  - apply wf_reterminate; assumption.
  - exact Hf.
  - unfold reterminate. rewrite map_map. cbn [fst]. reflexivity.
Qed.
Print Assumptions recs_reterminate.

(* same grammar lines; noise and terminators arbitrary: this subsumes terminator independence *)
Theorem recs_noise_independent : forall f1 f2,
  wf_file f1 = true -> wf_file f2 = true -> file_lines f1 = file_lines f2 ->
  recs (print_file f1) = recs (print_file f2).
Proof.
  intros f1 f2 H1 H2 E.
  rewrite (recs_print_file_lines f1 H1), (recs_print_file_lines f2 H2), E. reflexivity.
Qed.
Print Assumptions recs_noise_independent.

(* inserting / removing one noise element anywhere *)
Corollary recs_noise_insert : forall f g l t,
  wf_file (f ++ g) = true -> recs l = [] -> In t terminators ->
  recs (print_file (f ++ (FNoise l, t) :: g)) = recs (print_file (f ++ g)).
Proof.
  intros f g l t H Hl Ht. apply recs_noise_independent.
  - rewrite wf_file_app in *. apply andb_true_iff in H. destruct H as [Hf Hg].
    rewrite Hf. apply wf_file_cons. repeat split; [|exact Ht|exact Hg].
    cbn [wf_elem]. apply is_empty_nil. exact Hl.
  - exact H.
  - rewrite !file_lines_app. unfold file_lines at 2. cbn [flat_map fst elem_lines app]. reflexivity.
Qed.
Print Assumptions recs_noise_insert.

(* removing all noise *)
Definition strip_noise (f : list (felem * list N)) : list (felem * list N) :=
  filter (fun p : felem * list N => match fst p with FLine _ => true | FNoise _ => false end) f.

Lemma wf_strip_noise f : wf_file f = true -> wf_file (strip_noise f) = true.
Proof.
  unfold wf_file, strip_noise. rewrite !forallb_forall. intros H p Hp.
  apply filter_In in Hp. apply H. apply Hp.
Qed.

Lemma file_lines_strip_noise f : file_lines (strip_noise f) = file_lines f.
Proof.
  induction f as [|[e t] f IH]; [reflexivity|].
  unfold file_lines, strip_noise in *. cbn [filter fst].
  destruct e as [a|l]; cbn [flat_map fst elem_lines app]; rewrite IH; reflexivity.
Qed.

Corollary recs_strip_noise : forall f,
  wf_file f = true -> recs (print_file (strip_noise f)) = recs (print_file f).
Proof.
  intros f H. apply recs_noise_independent.
  - apply wf_strip_noise. exact H.
  - exact H.
  - apply file_lines_strip_noise.
Qed.
Print Assumptions recs_strip_noise.

(* what counts as noise: the empty line, runs of terminators, and any line that no sub-parser accepts *)
Lemma noise_blank : recs [] = [].
Proof. reflexivity. Qed.

Lemma noise_terminators : forall l, forallb is_nl l = true -> recs l = [].
Proof.
  intros l H. rewrite <- recs_drop_nl.
  replace (drop_nl l) with (@nil N); [reflexivity|].
  pose proof (drop_nl_all l [] H) as D. rewrite app_nil_r in D. rewrite D. reflexivity.
Qed.

Lemma noise_unparseable : forall l, l <> [] -> no_nl l = true -> dispatch l = None -> recs l = [].
Proof.
  intros l Hne Hn Hd. unfold recs. rewrite items_cons by exact Hne.
  assert (Hl : drop_nl l = l).
  { destruct l as [|x xs]; [reflexivity|]. apply drop_nl_id. cbn [hd_sat].
    cbn [no_nl forallb] in Hn. apply andb_true_iff in Hn. apply Hn. }
  unfold parse_record. rewrite Hl, Hd. unfold split_line.
  assert (Hs : span is_nl l = (l, [])).
  { clear Hne Hd Hl. induction l as [|x xs IH]; [reflexivity|].
    cbn [no_nl forallb] in Hn. apply andb_true_iff in Hn. destruct Hn as [Hx Hxs].
    apply negb_true_iff in Hx. cbn [span]. rewrite Hx. cbn [negb].
    unfold no_nl in IH. rewrite (IH Hxs). reflexivity. }
  rewrite Hs. cbn [fst snd]. reflexivity.
Qed.
Print Assumptions noise_unparseable.

(* ---------------------------------------------------------------------- *)
(* consequences for retracing: Spec answers depend on the file through recs *)
(* ---------------------------------------------------------------------- *)
Section Retrace.
  Variables f1 f2 : list (felem * list N).
  Hypothesis W1 : wf_file f1 = true.
  Hypothesis W2 : wf_file f2 = true.
  Hypothesis L : file_lines f1 = file_lines f2.

  Theorem Sline_file_independent : forall c m line file,
    Sline (recs (print_file f1)) c m line file = Sline (recs (print_file f2)) c m line file.
  Proof. intros. rewrite (recs_noise_independent f1 f2 W1 W2 L). reflexivity. Qed.

  Theorem Sparams_file_independent : forall c m p,
    Sparams (recs (print_file f1)) c m p = Sparams (recs (print_file f2)) c m p.
  Proof. intros. rewrite (recs_noise_independent f1 f2 W1 W2 L). reflexivity. Qed.

  Theorem Sclass_file_independent : forall c,
    Sclass (recs (print_file f1)) c = Sclass (recs (print_file f2)) c.
  Proof. intros. rewrite (recs_noise_independent f1 f2 W1 W2 L). reflexivity. Qed.

  Theorem Smethod_file_independent : forall c m,
    Smethod (recs (print_file f1)) c m = Smethod (recs (print_file f2)) c m.
  Proof. intros. rewrite (recs_noise_independent f1 f2 W1 W2 L). reflexivity. Qed.
End Retrace.
Print Assumptions Sline_file_independent.
Print Assumptions Sparams_file_independent.
Print Assumptions Sclass_file_independent.
Print Assumptions Smethod_file_independent.

(* the answers in terms of the grammar lines alone *)
Corollary Sline_of_lines : forall f c m line file,
  wf_file f = true ->
  Sline (recs (print_file f)) c m line file = Sline (map record_of (file_lines f)) c m line file.
Proof. intros f c m line file H. rewrite (recs_print_file_lines f H). reflexivity. Qed.
Print Assumptions Sline_of_lines.

(* the unterminated-last-line variant for retracing *)
Corollary Sline_last_terminator_optional : forall f e t c m line file,
  wf_file f = true -> wf_elem e = true -> In t terminators ->
  Sline (recs (print_file (f ++ [(e, t)]))) c m line file =
  Sline (recs (print_file f ++ print_elem e)) c m line file.
Proof.
  intros f e t c m line file Hf He Ht.
  rewrite (recs_last_terminator_optional f e t Hf He Ht). reflexivity.
Qed.
Print Assumptions Sline_last_terminator_optional.

(* ---------------------------------------------------------------------- *)
(* examples                                                                 *)
(* ---------------------------------------------------------------------- *)
(* class CRLF, noise "x y z" CR, blank LF, method LF *)
Definition ex_noise : list N := [120; 32; 121; 32; 122].
Definition ex_file1 : list (felem * list N) :=
  [(FLine ex_class, [13; 10]); (FNoise ex_noise, [13]); (FNoise [], [10]); (FLine ex_method, [10])].
(* the same grammar lines, no noise, other terminators *)
Definition ex_file2 : list (felem * list N) :=
  [(FLine ex_class, [10]); (FLine ex_method, [13])].
(* other noise: a run of terminators, a malformed class line "a -> b" (no colon) *)
Definition ex_file3 : list (felem * list N) :=
  [(FNoise [10; 13; 13], [13; 10]); (FLine ex_class, [13]); (FNoise [97; 32; 45; 62; 32; 98], [10]);
   (FLine ex_method, [13; 10])].

Example ex_files_wf : wf_file ex_file1 = true /\ wf_file ex_file2 = true /\ wf_file ex_file3 = true.
Proof. vm_compute. repeat split. Qed.

Example ex_files_prop : wf_file_prop ex_file1.
Proof. apply wf_file_iff. vm_compute. reflexivity. Qed.

Example ex_file1_bytes :
  print_file ex_file1 =
  print_line ex_class ++ [13; 10] ++ [120; 32; 121; 32; 122] ++ [13] ++ [10] ++ print_line ex_method ++ [10].
Proof. vm_compute. reflexivity. Qed.

Example ex_recs_print_file :
  recs (print_file ex_file1) = [record_of ex_class; record_of ex_method] /\
  length (items (print_file ex_file1)) = 3%nat.     (* the noise line is an error item *)
Proof. vm_compute. split; reflexivity. Qed.

Example ex_same_lines :
  file_lines ex_file1 = file_lines ex_file2 /\ file_lines ex_file1 = file_lines ex_file3 /\
  recs (print_file ex_file1) = recs (print_file ex_file2) /\
  recs (print_file ex_file1) = recs (print_file ex_file3) /\
  print_file ex_file1 <> print_file ex_file2.
Proof. vm_compute. repeat split. discriminate. Qed.

Example ex_terminator_independent :
  map fst ex_file1 = map fst (reterminate [13] ex_file1) /\
  wf_file (reterminate [13] ex_file1) = true /\
  recs (print_file (reterminate [13] ex_file1)) = recs (print_file ex_file1).
Proof. vm_compute. repeat split. Qed.

Example ex_last_unterminated :
  wf_elem (FLine ex_field) = true /\
  recs (print_file ex_file1 ++ print_elem (FLine ex_field)) =
  recs (print_file ex_file1) ++ [record_of ex_field].
Proof. vm_compute. split; reflexivity. Qed.

Example ex_noise_is_noise :
  recs ex_noise = [] /\ no_nl ex_noise = true /\ dispatch ex_noise = None /\
  recs [10; 13; 13] = [] /\ recs [97; 32; 45; 62; 32; 98] = [].
Proof. vm_compute. repeat split. Qed.

(* the retrace answer on the example: frame for obfuscated a.a.a.a.c.buttonClicked line 1016 *)
Example ex_Sline :
  Sline (recs (print_file ex_file1)) [97;46;97;46;97;46;97;46;99]
        [98;117;116;116;111;110;67;108;105;99;107;101;100] 1016 None =
  Sline (recs (print_file ex_file3)) [97;46;97;46;97;46;97;46;99]
        [98;117;116;116;111;110;67;108;105;99;107;101;100] 1016 None /\
  length (Sline (recs (print_file ex_file1)) [97;46;97;46;97;46;97;46;99]
        [98;117;116;116;111;110;67;108;105;99;107;101;100] 1016 None) = 1%nat.
Proof. vm_compute. split; reflexivity. Qed.

(* why [wf_elem] asks [recs l = []] of noise and not just "l is not a grammar line": noise may not
   contain a parseable line.  And why the statement is on [recs], not [items]: noise shows up in [items]. *)
Example ex_items_differ :
  items (print_file ex_file1) <> items (print_file ex_file2).
Proof. vm_compute. discriminate. Qed.

(* ====================================================================== *)
(* 2. Group 2: metadata answers that ignore error items are functions of recs *)
(* ====================================================================== *)

Definition rec_with_lines (r : record) : bool :=
  match r with RMethod _ _ _ _ _ (Some _) => true | _ => false end.

Lemma existsb_ok_records its :
  existsb method_with_lines its = existsb rec_with_lines (ok_records its).
Proof.
  induction its as [|it r IH]; [reflexivity|].
  destruct it as [rc|e].
  - rewrite ok_records_cons_ok. cbn [existsb]. rewrite IH.
    destruct rc as [k v|o ob|ty o ob|ty o ob args oc [lm|]]; reflexivity.
  - rewrite ok_records_cons_err. cbn [existsb method_with_lines orb]. exact IH.
Qed.

Theorem has_line_info_recs : forall b,
  has_line_info b =
  existsb (fun r => match r with RMethod _ _ _ _ _ (Some _) => true | _ => false end) (recs b).
Proof. intros b. rewrite has_line_info_spec. unfold recs. apply existsb_ok_records. Qed.
Print Assumptions has_line_info_recs.

(* error items leave the summary unchanged *)
Lemma summary_step_err s e : summary_step s (IErr e) = s.
Proof. reflexivity. Qed.

Lemma fold_summary_ok_records : forall its s,
  fold_left summary_step its s = fold_left summary_step (map IOk (ok_records its)) s.
Proof.
  induction its as [|it r IH]; intros s; [reflexivity|].
  destruct it as [rc|e].
  - rewrite ok_records_cons_ok. cbn [map fold_left]. apply IH.
  - rewrite ok_records_cons_err. cbn [fold_left]. rewrite summary_step_err. apply IH.
Qed.

Theorem summarize_recs : forall b,
  summarize b = fold_left summary_step (map IOk (recs b)) summary_init.
Proof. intros b. unfold summarize, recs. apply fold_summary_ok_records. Qed.
Print Assumptions summarize_recs.

(* hence: equal recs, equal answers *)
Corollary has_line_info_ext : forall b1 b2, recs b1 = recs b2 -> has_line_info b1 = has_line_info b2.
Proof. intros b1 b2 E. rewrite !has_line_info_recs, E. reflexivity. Qed.
Corollary summarize_ext : forall b1 b2, recs b1 = recs b2 -> summarize b1 = summarize b2.
Proof. intros b1 b2 E. rewrite !summarize_recs, E. reflexivity. Qed.
Print Assumptions has_line_info_ext.
Print Assumptions summarize_ext.

Theorem has_line_info_concat : forall A B nl,
  In nl [[10]; [13]; [13; 10]] ->
  has_line_info (A ++ nl ++ B) = has_line_info A || has_line_info B.
Proof.
  intros A B nl H. rewrite !has_line_info_recs, (recs_isolation A B nl H). apply existsb_app.
Qed.
Print Assumptions has_line_info_concat.

(* the summary of a concatenation: continue the fold of A over the records of B *)
Theorem summarize_concat : forall A B nl,
  In nl [[10]; [13]; [13; 10]] ->
  summarize (A ++ nl ++ B) = fold_left summary_step (map IOk (recs B)) (summarize A).
Proof.
  intros A B nl H. rewrite (summarize_recs (A ++ nl ++ B)), (recs_isolation A B nl H).
  rewrite map_app, fold_left_app, <- summarize_recs. reflexivity.
Qed.
Print Assumptions summarize_concat.

Lemma filter_is_class_ok its :
  length (filter is_class (map IOk (ok_records its))) = length (filter is_class its).
Proof.
  induction its as [|it r IH]; [reflexivity|]. destruct it as [rc|e].
  - rewrite ok_records_cons_ok. cbn [map filter]. destruct (is_class (IOk rc)); cbn [length]; rewrite IH; reflexivity.
  - rewrite ok_records_cons_err. cbn [filter is_class]. exact IH.
Qed.
Lemma filter_is_method_ok its :
  length (filter is_method (map IOk (ok_records its))) = length (filter is_method its).
Proof.
  induction its as [|it r IH]; [reflexivity|]. destruct it as [rc|e].
  - rewrite ok_records_cons_ok. cbn [map filter]. destruct (is_method (IOk rc)); cbn [length]; rewrite IH; reflexivity.
  - rewrite ok_records_cons_err. cbn [filter is_method]. exact IH.
Qed.
Lemma last_header_ok k its acc :
  fold_left (last_header_step k) (map IOk (ok_records its)) acc = fold_left (last_header_step k) its acc.
Proof.
  revert acc. induction its as [|it r IH]; intros acc; [reflexivity|]. destruct it as [rc|e].
  - rewrite ok_records_cons_ok. cbn [map fold_left]. apply IH.
  - rewrite ok_records_cons_err. cbn [fold_left last_header_step]. apply IH.
Qed.

(* the precise field-by-field form: counts add; last-wins fields are those of B if B has such a
   header (whatever its value, including an unparsable min_api, which resets the field), else those of A *)
Theorem summary_counts_concat : forall A B nl,
  In nl [[10]; [13]; [13; 10]] ->
  let s := summarize (A ++ nl ++ B) in
  s_classes s = s_classes (summarize A) + s_classes (summarize B) /\
  s_methods s = s_methods (summarize A) + s_methods (summarize B) /\
  s_compiler s = (match last_header k_compiler (items B) with
                  | Some v => v | None => s_compiler (summarize A) end) /\
  s_version s = (match last_header k_compiler_version (items B) with
                 | Some v => v | None => s_version (summarize A) end) /\
  s_min_api s = (match last_header k_min_api (items B) with
                 | Some v => api_of v | None => s_min_api (summarize A) end).
Proof.
  intros A B nl H s. subst s. rewrite (summarize_concat A B nl H).
  destruct (summary_spec B) as [HC [HM _]].
  unfold recs, last_header. repeat split.
  - rewrite fold_classes, filter_is_class_ok, HC. reflexivity.
  - rewrite fold_methods, filter_is_method_ok, HM. reflexivity.
  - rewrite (fold_compiler _ (summarize A) None (s_compiler (summarize A))) by reflexivity.
    rewrite last_header_ok. reflexivity.
  - rewrite (fold_version _ (summarize A) None (s_version (summarize A))) by reflexivity.
    rewrite last_header_ok. reflexivity.
  - rewrite (fold_min_api _ (summarize A) None (s_min_api (summarize A))) by reflexivity.
    rewrite last_header_ok.
    destruct (fold_left (last_header_step k_min_api) (items B) None); reflexivity.
Qed.
Print Assumptions summary_counts_concat.

(* file-level forms *)
Corollary has_line_info_print_file : forall f,
  wf_file f = true ->
  has_line_info (print_file f) = existsb rec_with_lines (map record_of (file_lines f)).
Proof. intros f H. rewrite has_line_info_recs, (recs_print_file_lines f H). reflexivity. Qed.
Print Assumptions has_line_info_print_file.

Corollary metadata_file_independent : forall f1 f2,
  wf_file f1 = true -> wf_file f2 = true -> file_lines f1 = file_lines f2 ->
  has_line_info (print_file f1) = has_line_info (print_file f2) /\
  summarize (print_file f1) = summarize (print_file f2).
Proof.
  intros f1 f2 W1 W2 L. pose proof (recs_noise_independent f1 f2 W1 W2 L) as E.
  split; [apply has_line_info_ext|apply summarize_ext]; exact E.
Qed.
Print Assumptions metadata_file_independent.

(* examples *)
Example has_line_info_concat_ex :
  In [13; 10] [[10]; [13]; [13; 10]] /\
  has_line_info ex_without_lines = false /\ has_line_info ex_with_lines = true /\
  has_line_info (ex_without_lines ++ [13; 10] ++ ex_with_lines) = true /\
  has_line_info (ex_without_lines ++ [13] ++ ex_without_lines) = false.
Proof. vm_compute. repeat split. right. right. left. reflexivity. Qed.

Example summary_concat_ex :
  let s := summarize (ex_summary ++ [10] ++ ex_with_lines) in
  s_classes s = 3 /\ s_methods s = 2 /\ s_compiler s = Some [82; 56] /\ s_min_api s = None /\
  s_classes (summarize ex_summary) = 2 /\ s_classes (summarize ex_with_lines) = 1 /\
  last_header k_compiler (items ex_with_lines) = None /\
  (* B sets the field: "# compiler: R8\n" after A = ex_with_lines *)
  s_compiler (summarize (ex_with_lines ++ [10] ++ firstn 15 ex_summary)) = Some [82; 56] /\
  s_compiler (summarize ex_with_lines) = None.
Proof. vm_compute. repeat split. Qed.

Example metadata_file_ex :
  has_line_info (print_file ex_file1) = true /\
  summarize (print_file ex_file1) = summarize (print_file ex_file3) /\
  s_classes (summarize (print_file ex_file1)) = 1 /\ s_methods (summarize (print_file ex_file1)) = 1.
Proof. vm_compute. repeat split. Qed.

(* [is_valid] is NOT a function of recs: error items use up the 50-item window.
   b1 = "A -> B:\n    void a() -> b\n";  b2 = 50 unparseable lines "x\n" followed by b1. *)
Definition ex_valid1 : list N := ex_without_lines.
Definition ex_valid2 : list N := concat (repeat [120; 10] 50) ++ ex_without_lines.
Example is_valid_not_recs :
  recs ex_valid1 = recs ex_valid2 /\ is_valid ex_valid1 = true /\ is_valid ex_valid2 = false.
Proof. vm_compute. repeat split. Qed.
(* in file-level terms: 50 noise lines in front of a valid two-line file *)
Definition ex_valid_file1 : list (felem * list N) := [(FLine ex_class, [10]); (FLine ex_method2, [10])].
Definition ex_valid_file2 : list (felem * list N) := repeat (FNoise [120], [10]) 50 ++ ex_valid_file1.
Example is_valid_not_file_independent :
  wf_file ex_valid_file1 = true /\ wf_file ex_valid_file2 = true /\
  file_lines ex_valid_file1 = file_lines ex_valid_file2 /\
  is_valid (print_file ex_valid_file1) = true /\ is_valid (print_file ex_valid_file2) = false.
Proof. vm_compute. repeat split. Qed.
