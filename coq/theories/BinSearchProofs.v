(* BinSearchProofs.v — contract of the binary search / range search of CacheReader.v (Section BS):
   [bs_loop], [binary_search] (the branch-free slice::binary_search_by), [take_while_eq], [find_range]
   (find_range_by_binary_search, src/cache/mod.rs:276-298).
   Everything is generic in the element type [A], the comparator [f : A -> comparison] and the default [d]. *)
From Coq Require Import List Arith Lia Bool.
From PG Require Import Base Mapping Spec CacheWriter CacheReader.
Import ListNotations.
Local Open Scope nat_scope.

Definition rank (c : comparison) : nat := match c with Lt => 0 | Eq => 1 | Gt => 2 end.

Definition is_eq (c : comparison) : bool := match c with Eq => true | _ => false end.

Definition mono {A} (f : A -> comparison) (d : A) (l : list A) : Prop :=
  forall i j, i <= j -> j < length l -> rank (f (nth i l d)) <= rank (f (nth j l d)).

Definition sorted3 {A} (f : A -> comparison) (l : list A) : Prop :=
  exists lo eq hi, l = lo ++ eq ++ hi /\
    Forall (fun x => f x = Lt) lo /\ Forall (fun x => f x = Eq) eq /\ Forall (fun x => f x = Gt) hi.

Section BSP.
Context {A : Type} (f : A -> comparison) (d : A).

(* ------------------------------------------------------------------------- *)
(* 1. bounds: for EVERY list                                                  *)

Lemma bs_loop_bound l : forall fuel base size,
  1 <= size -> base + size <= length l -> bs_loop f d fuel l base size < length l.
Proof.
  induction fuel as [|fuel IH]; intros base size H1 H2; cbn [bs_loop]; [lia|].
  destruct (Nat.leb size 1) eqn:E; [lia|].
  apply Nat.leb_gt in E.
  assert (Hh : 1 <= size / 2) by (apply Nat.div_le_lower_bound; lia).
  assert (Hh2 : 2 * (size / 2) <= size) by (apply Nat.mul_div_le; lia).
  destruct (f (nth (base + size / 2) l d)); apply IH; lia.
Qed.

Lemma binary_search_unfold l i :
  binary_search f d l = Some i ->
  l <> [] /\ i = bs_loop f d (length l) l 0 (length l) /\ f (nth i l d) = Eq.
Proof.
  unfold binary_search. destruct l as [|x xs]; [discriminate|].
  destruct (f (nth _ _ d)) eqn:E; intros H; inversion H; subst.
  repeat split; [discriminate|exact E].
Qed.

Theorem binary_search_bound l i : binary_search f d l = Some i -> i < length l.
Proof.
  intros H. apply binary_search_unfold in H. destruct H as (Hn & Hi & _). subst i.
  destruct l as [|x xs]; [congruence|].
  apply bs_loop_bound; cbn [length]; lia.
Qed.

(* ------------------------------------------------------------------------- *)
(* 2. soundness: for EVERY list                                               *)

Theorem binary_search_sound l i : binary_search f d l = Some i -> f (nth i l d) = Eq.
Proof. intros H. apply binary_search_unfold in H. tauto. Qed.

Corollary binary_search_nth_error l i :
  binary_search f d l = Some i -> exists x, nth_error l i = Some x /\ f x = Eq.
Proof.
  intros H. exists (nth i l d). split.
  - apply nth_error_nth'. eapply binary_search_bound; eassumption.
  - eapply binary_search_sound; eassumption.
Qed.

(* ------------------------------------------------------------------------- *)
(* 3. completeness on lists monotone w.r.t. the comparator                     *)

Definition Inv (l : list A) (base size : nat) : Prop :=
  1 <= size /\ base + size <= length l /\
  (base = 0 \/ f (nth base l d) <> Gt) /\
  (forall j, base + size <= j -> j < length l -> f (nth j l d) = Gt).

Lemma bs_loop_inv l : mono f d l -> forall fuel base size,
  Inv l base size -> size <= S fuel ->
  let b := bs_loop f d fuel l base size in
  b < length l /\ (b = 0 \/ f (nth b l d) <> Gt) /\
  (forall j, b + 1 <= j -> j < length l -> f (nth j l d) = Gt).
Proof.
  intros Hm. induction fuel as [|fuel IH]; intros base size (H1 & H2 & H3 & H4) Hf; cbn [bs_loop].
  - assert (size = 1) by lia. subst. repeat split; [lia|exact H3|exact H4].
  - destruct (Nat.leb size 1) eqn:E.
    + apply Nat.leb_le in E. assert (size = 1) by lia. subst. repeat split; [lia|exact H3|exact H4].
    + apply Nat.leb_gt in E.
      assert (Hh : 1 <= size / 2) by (apply Nat.div_le_lower_bound; lia).
      assert (Hh2 : 2 * (size / 2) <= size) by (apply Nat.mul_div_le; lia).
      destruct (f (nth (base + size / 2) l d)) eqn:Ec.
      * apply IH; [|lia]. repeat split; try lia.
        -- right. rewrite Ec. discriminate.
        -- intros j Hj Hl. apply H4; lia.
      * apply IH; [|lia]. repeat split; try lia.
        -- right. rewrite Ec. discriminate.
        -- intros j Hj Hl. apply H4; lia.
      * apply IH; [|lia]. repeat split; try lia; [exact H3|].
        intros j Hj Hl.
        assert (Hr := Hm (base + size / 2) j ltac:(lia) Hl). rewrite Ec in Hr. cbn [rank] in Hr.
        destruct (f (nth j l d)); cbn [rank] in Hr; try lia; reflexivity.
Qed.

Theorem binary_search_complete l e :
  mono f d l -> e < length l -> f (nth e l d) = Eq -> exists i, binary_search f d l = Some i.
Proof.
  intros Hm He Hf. unfold binary_search.
  destruct l as [|x xs] eqn:El; [cbn [length] in He; lia|]. rewrite <- El in *.
  assert (Hn : 1 <= length l) by lia.
  destruct (bs_loop_inv l Hm (length l) 0 (length l)) as (Hb & H0 & Hg).
  { repeat split; try lia. } { lia. }
  set (b := bs_loop f d (length l) l 0 (length l)) in *.
  assert (Hle : e <= b).
  { destruct (Nat.le_gt_cases e b) as [|Hgt]; [assumption|]. rewrite (Hg e) in Hf by lia. discriminate. }
  assert (Hr := Hm e b Hle Hb). rewrite Hf in Hr. cbn [rank] in Hr.
  destruct H0 as [H0|H0].
  - assert (e = 0) by lia. subst e. rewrite H0. rewrite Hf. eauto.
  - destruct (f (nth b l d)) eqn:Eb; cbn [rank] in Hr; try lia; [eauto|congruence].
Qed.

(* ------------------------------------------------------------------------- *)
(* 4. absent target                                                           *)

(* holds for every list; [mono] is not needed *)
Theorem binary_search_none_gen l :
  (forall x, In x l -> f x <> Eq) -> binary_search f d l = None.
Proof.
  intros Hall. destruct (binary_search f d l) as [i|] eqn:E; [|reflexivity].
  exfalso. apply (Hall (nth i l d)).
  - apply nth_In. eapply binary_search_bound; eassumption.
  - eapply binary_search_sound; eassumption.
Qed.

Theorem binary_search_none l :
  mono f d l -> (forall x, In x l -> f x <> Eq) -> binary_search f d l = None.
Proof. intros _. apply binary_search_none_gen. Qed.

(* converse: on a monotone list, None means no element is Eq *)
Theorem binary_search_none_inv l :
  mono f d l -> binary_search f d l = None -> forall x, In x l -> f x <> Eq.
Proof.
  intros Hm Hn x Hin Hx. destruct (In_nth l x d Hin) as (e & He & Hnth).
  destruct (binary_search_complete l e Hm He) as (i & Hi); [rewrite Hnth; exact Hx|congruence].
Qed.

(* ------------------------------------------------------------------------- *)
(* 5. three-block characterisation                                            *)

Lemma nth_blocks lo eq hi :
  Forall (fun x => f x = Lt) lo -> Forall (fun x => f x = Eq) eq -> Forall (fun x => f x = Gt) hi ->
  forall i, i < length (lo ++ eq ++ hi) ->
    (i < length lo /\ f (nth i (lo ++ eq ++ hi) d) = Lt) \/
    (length lo <= i < length lo + length eq /\ f (nth i (lo ++ eq ++ hi) d) = Eq) \/
    (length lo + length eq <= i /\ f (nth i (lo ++ eq ++ hi) d) = Gt).
Proof.
  intros Hlo Heq Hhi i Hi. rewrite !app_length in Hi.
  destruct (Nat.lt_ge_cases i (length lo)) as [H1|H1].
  - left. split; [exact H1|]. rewrite app_nth1 by exact H1.
    apply (proj1 (Forall_nth _ lo) Hlo); exact H1.
  - right. rewrite app_nth2 by exact H1.
    destruct (Nat.lt_ge_cases (i - length lo) (length eq)) as [H2|H2].
    + left. split; [lia|]. rewrite app_nth1 by exact H2.
      apply (proj1 (Forall_nth _ eq) Heq); exact H2.
    + right. split; [lia|]. rewrite app_nth2 by exact H2.
      apply (proj1 (Forall_nth _ hi) Hhi); lia.
Qed.

Theorem sorted3_mono l : sorted3 f l -> mono f d l.
Proof.
  intros (lo & eq & hi & -> & Hlo & Heq & Hhi) i j Hij Hj.
  destruct (nth_blocks lo eq hi Hlo Heq Hhi i ltac:(lia)) as [(Hi1 & Hi2)|[(Hi1 & Hi2)|(Hi1 & Hi2)]];
  destruct (nth_blocks lo eq hi Hlo Heq Hhi j Hj) as [(Hj1 & Hj2)|[(Hj1 & Hj2)|(Hj1 & Hj2)]];
  rewrite Hi2, Hj2; cbn [rank]; lia.
Qed.

(* the converse: a monotone list splits into the three blocks *)
Theorem mono_sorted3 l : mono f d l -> sorted3 f l.
Proof.
  induction l as [|x xs IH]; intros Hm.
  - exists [], [], []. repeat split; constructor.
  - assert (Hm' : mono f d xs).
    { intros i j Hij Hj. apply (Hm (S i) (S j)); cbn [length]; lia. }
    destruct (IH Hm') as (lo & eq & hi & -> & Hlo & Heq & Hhi).
    assert (Hall : forall y, In y (lo ++ eq ++ hi) -> rank (f x) <= rank (f y)).
    { intros y Hy. destruct (In_nth _ _ d Hy) as (n & Hn & <-).
      apply (Hm 0 (S n)); cbn [length]; lia. }
    destruct (f x) eqn:Ex; cbn [rank] in Hall.
    + (* Eq: lo must be empty *)
      destruct lo as [|y lo'].
      * exists [], (x :: eq), hi. repeat split; auto.
      * exfalso. assert (H := Hall y ltac:(left; reflexivity)).
        inversion Hlo as [|? ? Hy _]; subst. rewrite Hy in H. cbn [rank] in H. lia.
    + exists (x :: lo), eq, hi. repeat split; auto.
    + destruct lo as [|y lo'].
      * destruct eq as [|y eq'].
        -- exists [], [], (x :: hi). repeat split; auto.
        -- exfalso. assert (H := Hall y ltac:(left; reflexivity)).
           inversion Heq as [|? ? Hy _]; subst. rewrite Hy in H. cbn [rank] in H. lia.
      * exfalso. assert (H := Hall y ltac:(left; reflexivity)).
        inversion Hlo as [|? ? Hy _]; subst. rewrite Hy in H. cbn [rank] in H. lia.
Qed.

(* position of a successful search in a three-block list *)
Lemma binary_search_blocks lo eq hi i :
  Forall (fun x => f x = Lt) lo -> Forall (fun x => f x = Eq) eq -> Forall (fun x => f x = Gt) hi ->
  binary_search f d (lo ++ eq ++ hi) = Some i -> length lo <= i < length lo + length eq.
Proof.
  intros Hlo Heq Hhi H.
  assert (Hb := binary_search_bound _ _ H). assert (Hs := binary_search_sound _ _ H).
  destruct (nth_blocks lo eq hi Hlo Heq Hhi i Hb) as [(H1 & H2)|[(H1 & H2)|(H1 & H2)]];
    [congruence|exact H1|congruence].
Qed.

Lemma binary_search_blocks_some lo eq hi :
  Forall (fun x => f x = Lt) lo -> Forall (fun x => f x = Eq) eq -> Forall (fun x => f x = Gt) hi ->
  eq <> [] ->
  exists i, binary_search f d (lo ++ eq ++ hi) = Some i /\ length lo <= i < length lo + length eq.
Proof.
  intros Hlo Heq Hhi Hne.
  destruct eq as [|x eq']; [congruence|].
  destruct (binary_search_complete (lo ++ (x :: eq') ++ hi) (length lo)) as (i & Hi).
  - apply sorted3_mono. exists lo, (x :: eq'), hi. auto.
  - rewrite !app_length. cbn [length]. lia.
  - rewrite app_nth2 by lia. rewrite Nat.sub_diag. cbn [app nth].
    inversion Heq; subst; assumption.
  - exists i. split; [exact Hi|]. eapply binary_search_blocks; eassumption.
Qed.

Lemma binary_search_blocks_none lo hi :
  Forall (fun x => f x = Lt) lo -> Forall (fun x => f x = Gt) hi ->
  binary_search f d (lo ++ hi) = None.
Proof.
  intros Hlo Hhi. apply binary_search_none_gen. intros x Hx.
  apply in_app_or in Hx. destruct Hx as [Hx|Hx].
  - rewrite (proj1 (Forall_forall _ lo) Hlo x Hx). discriminate.
  - rewrite (proj1 (Forall_forall _ hi) Hhi x Hx). discriminate.
Qed.

(* take_while_eq *)
Lemma take_while_eq_app a b :
  Forall (fun x => f x = Eq) a -> Forall (fun x => f x <> Eq) b ->
  take_while_eq f (a ++ b) = a.
Proof.
  intros Ha Hb. induction Ha as [|x a Hx Ha IH]; cbn [app take_while_eq].
  - destruct b as [|y b]; [reflexivity|]. cbn [take_while_eq].
    inversion Hb as [|? ? Hy _]; subst. destruct (f y); congruence.
  - rewrite Hx, IH. reflexivity.
Qed.

Lemma take_while_eq_all a : Forall (fun x => f x = Eq) a -> take_while_eq f a = a.
Proof.
  intros Ha. rewrite <- (app_nil_r a) at 1. apply take_while_eq_app; [exact Ha|constructor].
Qed.

Lemma take_while_eq_prefix l :
  exists rest, l = take_while_eq f l ++ rest /\ Forall (fun x => f x = Eq) (take_while_eq f l).
Proof.
  induction l as [|x l (rest & Hl & Hall)]; cbn [take_while_eq].
  - exists []. split; [reflexivity|constructor].
  - destruct (f x) eqn:Ex.
    + exists rest. cbn [app]. split; [congruence|]. constructor; assumption.
    + exists (x :: l). split; [reflexivity|constructor].
    + exists (x :: l). split; [reflexivity|constructor].
Qed.

Lemma find_range_unfold l r :
  find_range f d l = Some r ->
  exists mid, binary_search f d l = Some mid /\
    r = rev (take_while_eq f (rev (firstn mid l))) ++ take_while_eq f (skipn mid l).
Proof.
  unfold find_range. destruct (binary_search f d l) as [mid|]; [|discriminate].
  intros H. inversion H. eauto.
Qed.

Lemma Forall_impl_ne (P Q : A -> Prop) l : (forall x, P x -> Q x) -> Forall P l -> Forall Q l.
Proof. intros H. apply Forall_impl. exact H. Qed.

Theorem find_range_spec l lo eq hi :
  l = lo ++ eq ++ hi ->
  Forall (fun x => f x = Lt) lo -> Forall (fun x => f x = Eq) eq -> Forall (fun x => f x = Gt) hi ->
  find_range f d l = (match eq with [] => None | _ => Some eq end).
Proof.
  intros -> Hlo Heq Hhi. unfold find_range.
  destruct eq as [|x0 eq0] eqn:Eeq.
  - cbn [app]. rewrite binary_search_blocks_none by assumption. reflexivity.
  - rewrite <- Eeq in *.
    destruct (binary_search_blocks_some lo eq hi Hlo Heq Hhi) as (mid & Hmid & Hrange).
    { rewrite Eeq. discriminate. }
    rewrite Hmid. f_equal.
    set (k := mid - length lo).
    assert (Hk : k < length eq) by (unfold k; lia).
    assert (Hfirst : firstn mid (lo ++ eq ++ hi) = lo ++ firstn k eq).
    { rewrite firstn_app. rewrite firstn_all2 by lia. f_equal.
      fold k. rewrite firstn_app. replace (k - length eq) with 0 by lia.
      cbn [firstn]. apply app_nil_r. }
    assert (Hskip : skipn mid (lo ++ eq ++ hi) = skipn k eq ++ hi).
    { rewrite skipn_app. rewrite skipn_all2 by lia. cbn [app].
      fold k. rewrite skipn_app. replace (k - length eq) with 0 by lia.
      reflexivity. }
    rewrite Hfirst, Hskip. rewrite rev_app_distr.
    assert (He1 : Forall (fun x => f x = Eq) (firstn k eq)).
    { rewrite <- (firstn_skipn k eq) in Heq. apply Forall_app in Heq. tauto. }
    assert (He2 : Forall (fun x => f x = Eq) (skipn k eq)).
    { rewrite <- (firstn_skipn k eq) in Heq. apply Forall_app in Heq. tauto. }
    rewrite take_while_eq_app.
    + rewrite take_while_eq_app.
      * rewrite rev_involutive. apply firstn_skipn.
      * exact He2.
      * eapply Forall_impl_ne; [|exact Hhi]. intros y Hy. cbv beta in *. congruence.
    + apply Forall_rev. exact He1.
    + apply Forall_rev. eapply Forall_impl_ne; [|exact Hlo]. intros y Hy. cbv beta in *. congruence.
Qed.

Corollary find_range_sorted3 l :
  sorted3 f l ->
  exists lo eq hi, l = lo ++ eq ++ hi /\
    Forall (fun x => f x = Lt) lo /\ Forall (fun x => f x = Eq) eq /\ Forall (fun x => f x = Gt) hi /\
    find_range f d l = (match eq with [] => None | _ => Some eq end).
Proof.
  intros (lo & eq & hi & Hl & Hlo & Heq & Hhi). exists lo, eq, hi.
  repeat split; try assumption. eapply find_range_spec; eassumption.
Qed.

(* on a monotone list the range is exactly the sub-list of all Eq elements *)
Lemma filter_blocks lo eq hi :
  Forall (fun x => f x = Lt) lo -> Forall (fun x => f x = Eq) eq -> Forall (fun x => f x = Gt) hi ->
  filter (fun x => is_eq (f x)) (lo ++ eq ++ hi) = eq.
Proof.
  intros Hlo Heq Hhi. rewrite !filter_app.
  assert (H1 : filter (fun x => is_eq (f x)) lo = []).
  { induction Hlo as [|x lo Hx _ IH]; cbn [filter]; [reflexivity|]. rewrite Hx. exact IH. }
  assert (H2 : filter (fun x => is_eq (f x)) eq = eq).
  { induction Heq as [|x eq Hx _ IH]; cbn [filter]; [reflexivity|]. rewrite Hx. cbn [is_eq]. f_equal. exact IH. }
  assert (H3 : filter (fun x => is_eq (f x)) hi = []).
  { induction Hhi as [|x hi Hx _ IH]; cbn [filter]; [reflexivity|]. rewrite Hx. exact IH. }
  rewrite H1, H2, H3. cbn [app]. apply app_nil_r.
Qed.

Theorem find_range_mono l :
  mono f d l ->
  find_range f d l = (match filter (fun x => is_eq (f x)) l with [] => None | r => Some r end).
Proof.
  intros Hm. destruct (mono_sorted3 l Hm) as (lo & eq & hi & -> & Hlo & Heq & Hhi).
  rewrite (find_range_spec _ lo eq hi eq_refl Hlo Heq Hhi).
  rewrite (filter_blocks lo eq hi Hlo Heq Hhi). destruct eq; reflexivity.
Qed.

(* ------------------------------------------------------------------------- *)
(* 6. find_range on arbitrary (unsorted, corrupted) lists                      *)

Theorem find_range_total l r :
  find_range f d l = Some r ->
  Forall (fun x => f x = Eq) r /\ (exists p s, l = p ++ r ++ s) /\ r <> [].
Proof.
  intros H. apply find_range_unfold in H. destruct H as (mid & Hmid & ->).
  assert (Hb := binary_search_bound _ _ Hmid). assert (Hs := binary_search_sound _ _ Hmid).
  destruct (take_while_eq_prefix (rev (firstn mid l))) as (r1 & Hr1 & Ha1).
  destruct (take_while_eq_prefix (skipn mid l)) as (r2 & Hr2 & Ha2).
  set (t1 := take_while_eq f (rev (firstn mid l))) in *.
  set (t2 := take_while_eq f (skipn mid l)) in *.
  repeat split.
  - apply Forall_app. split; [apply Forall_rev; exact Ha1|exact Ha2].
  - exists (rev r1), r2.
    rewrite <- (firstn_skipn mid l) at 1.
    rewrite Hr2. rewrite <- (rev_involutive (firstn mid l)). rewrite Hr1.
    rewrite rev_app_distr. rewrite <- !app_assoc. reflexivity.
  - (* the element at [mid] is Eq, so the [after] part is non-empty *)
    intros Hnil. apply app_eq_nil in Hnil. destruct Hnil as (_ & Ht2).
    assert (Hsk : skipn mid l = nth mid l d :: skipn (S mid) l).
    { clear - Hb. revert mid Hb. induction l as [|x l IH]; intros mid Hb; cbn [length] in Hb; [lia|].
      destruct mid as [|mid]; [reflexivity|].
      change (skipn (S mid) (x :: l)) with (skipn mid l).
      change (nth (S mid) (x :: l) d) with (nth mid l d).
      change (skipn (S (S mid)) (x :: l)) with (skipn (S mid) l).
      apply IH. lia. }
    unfold t2 in Ht2. rewrite Hsk in Ht2. cbn [take_while_eq] in Ht2. rewrite Hs in Ht2. discriminate.
Qed.

Corollary find_range_total_len l r :
  find_range f d l = Some r -> 1 <= length r <= length l.
Proof.
  intros H. destruct (find_range_total l r H) as (_ & (p & s & ->) & Hne).
  rewrite !app_length. destruct r; [congruence|]. cbn [length]. lia.
Qed.

(* find_range succeeds exactly when binary_search does *)
Lemma find_range_none_iff l : find_range f d l = None <-> binary_search f d l = None.
Proof. unfold find_range. destruct (binary_search f d l); split; congruence. Qed.

(* ------------------------------------------------------------------------- *)
(* 7. unique Eq element: the index is determined                              *)

Theorem binary_search_unique l lo x hi :
  l = lo ++ [x] ++ hi ->
  Forall (fun y => f y = Lt) lo -> f x = Eq -> Forall (fun y => f y = Gt) hi ->
  binary_search f d l = Some (length lo).
Proof.
  intros -> Hlo Hx Hhi.
  destruct (binary_search_blocks_some lo [x] hi Hlo ltac:(auto) Hhi ltac:(discriminate))
    as (i & Hi & Hr).
  cbn [length] in Hr. rewrite Hi. f_equal. lia.
Qed.

Corollary binary_search_unique_nth_error l lo x hi :
  l = lo ++ [x] ++ hi ->
  Forall (fun y => f y = Lt) lo -> f x = Eq -> Forall (fun y => f y = Gt) hi ->
  exists i, binary_search f d l = Some i /\ nth_error l i = Some x.
Proof.
  intros Hl Hlo Hx Hhi. exists (length lo). split.
  - eapply binary_search_unique; eassumption.
  - subst l. rewrite nth_error_app2 by lia. rewrite Nat.sub_diag. reflexivity.
Qed.

End BSP.

Print Assumptions binary_search_bound.
Print Assumptions binary_search_sound.
Print Assumptions binary_search_complete.
Print Assumptions binary_search_none.
Print Assumptions binary_search_none_gen.
Print Assumptions binary_search_none_inv.
Print Assumptions sorted3_mono.
Print Assumptions mono_sorted3.
Print Assumptions find_range_spec.
Print Assumptions find_range_total.
Print Assumptions find_range_mono.
Print Assumptions binary_search_unique.
Print Assumptions binary_search_unique_nth_error.

(* ------------------------------------------------------------------------- *)
(* Examples                                                                   *)

Module BinSearchExamples.
(* comparator for target 5 over nat keys *)
Definition cmp5 (n : nat) : comparison := Nat.compare n 5.
Definition sorted_l : list nat := [1; 2; 3; 5; 5; 5; 7; 9; 11]%nat.
Definition corrupt_l : list nat := [5; 9; 1; 5; 5; 9; 7; 5; 2]%nat.

Example ex_sorted3 : sorted3 cmp5 sorted_l.
Proof. exists [1;2;3], [5;5;5], [7;9;11]. repeat split; repeat constructor. Qed.
Example ex_mono : mono cmp5 0 sorted_l.
Proof. apply sorted3_mono, ex_sorted3. Qed.

Example ex_bs_sorted : binary_search cmp5 0 sorted_l = Some 5.
Proof. vm_compute. reflexivity. Qed.
Example ex_bound : 5 < length sorted_l. Proof. exact (binary_search_bound cmp5 0 _ _ ex_bs_sorted). Qed.
Example ex_sound : cmp5 (nth 5 sorted_l 0) = Eq. Proof. exact (binary_search_sound cmp5 0 _ _ ex_bs_sorted). Qed.
Example ex_complete : exists i, binary_search cmp5 0 sorted_l = Some i.
Proof. apply (binary_search_complete cmp5 0 sorted_l 3 ex_mono); vm_compute; [lia|reflexivity]. Qed.
Example ex_range_sorted : find_range cmp5 0 sorted_l = Some [5;5;5].
Proof. exact (find_range_spec cmp5 0 sorted_l [1;2;3] [5;5;5] [7;9;11] eq_refl
          ltac:(repeat constructor) ltac:(repeat constructor) ltac:(repeat constructor)). Qed.
Example ex_range_sorted_compute : find_range cmp5 0 sorted_l = Some [5;5;5].
Proof. vm_compute. reflexivity. Qed.

(* absent target *)
Definition cmp4 (n : nat) : comparison := Nat.compare n 4.
Example ex_none : binary_search cmp4 0 sorted_l = None.
Proof.
  apply binary_search_none.
  - apply sorted3_mono. exists [1;2;3], [], [5;5;5;7;9;11]. repeat split; repeat constructor.
  - intros x Hx. cbn [sorted_l In] in Hx. unfold cmp4.
    repeat (destruct Hx as [<-|Hx]; [discriminate|]). contradiction.
Qed.
Example ex_range_none : find_range cmp4 0 sorted_l = None.
Proof. exact (find_range_spec cmp4 0 sorted_l [1;2;3] [] [5;5;5;7;9;11] eq_refl
          ltac:(repeat constructor) ltac:(repeat constructor) ltac:(repeat constructor)). Qed.

(* unique key *)
Example ex_unique : binary_search cmp5 0 [1;2;3;5;7;9] = Some 3.
Proof. exact (binary_search_unique cmp5 0 _ [1;2;3] 5 [7;9] eq_refl
          ltac:(repeat constructor) eq_refl ltac:(repeat constructor)). Qed.

(* corrupted (unsorted) list: the search still terminates in bounds, on an Eq element,
   and the range is a contiguous all-Eq sub-list — but not all Eq elements *)
Example ex_bs_corrupt : binary_search cmp5 0 corrupt_l = Some 4.
Proof. vm_compute. reflexivity. Qed.
Example ex_range_corrupt : find_range cmp5 0 corrupt_l = Some [5;5].
Proof. vm_compute. reflexivity. Qed.
Example ex_range_corrupt_total :
  Forall (fun x => cmp5 x = Eq) [5;5] /\ (exists p s, corrupt_l = p ++ [5;5] ++ s) /\ [5;5] <> @nil nat.
Proof. exact (find_range_total cmp5 0 _ _ ex_range_corrupt). Qed.
Example ex_range_corrupt_partial : filter (fun x => is_eq (cmp5 x)) corrupt_l = [5;5;5;5].
Proof. vm_compute. reflexivity. Qed.
Example ex_corrupt_not_mono : ~ mono cmp5 0 corrupt_l.
Proof. intros H. specialize (H 1 2 ltac:(lia) ltac:(cbn [corrupt_l length]; lia)). vm_compute in H. lia. Qed.
Example ex_range_mono : find_range cmp5 0 sorted_l = Some [5;5;5].
Proof. rewrite (find_range_mono cmp5 0 sorted_l ex_mono). vm_compute. reflexivity. Qed.
(* completeness really needs [mono]: an unsorted list containing the target where the search misses it *)
Example ex_incomplete_unsorted :
  In 5 [5;1;9;0;2]%nat /\ binary_search cmp5 0 [5;1;9;0;2] = None.
Proof. split; [left; reflexivity|vm_compute; reflexivity]. Qed.
End BinSearchExamples.
