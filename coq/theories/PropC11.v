(* PropC11.v — property C11: torn, foreign or wrong-version cache files are rejected. *)
From PG Require Import Base CacheWriter CacheReader CacheStructDefs CacheBytesProofs.

(* every strict prefix of a written file is rejected (stronger than the property's disjunction),
   with the error kind of the first section that does not fit *)
Theorem C11_prefix_rejected : forall s n, struct_wf s = true -> (n < length (ser s))%nat ->
  parse (firstn n (ser s)) =
  PErr (prefix_err (lenN (cs_classes s)) (lenN (cs_members s)) (lenN (cs_byparams s))
                   (lenN (cs_strings s)) (N.of_nat n)).
Proof. exact prefix_error_kind. Qed.

Theorem C11_magic_flipped : forall buf hdr rest,
  rd_words 6 buf = Some (hdr, rest) -> nth 0 hdr 0 = cache_magic_flipped -> parse buf = PErr WrongEndianness.
Proof. exact header_wrong_endianness. Qed.
Theorem C11_magic_other : forall buf hdr rest,
  rd_words 6 buf = Some (hdr, rest) -> nth 0 hdr 0 <> cache_magic -> nth 0 hdr 0 <> cache_magic_flipped ->
  parse buf = PErr WrongFormat.
Proof. exact header_wrong_format. Qed.
Theorem C11_version_other : forall buf hdr rest,
  rd_words 6 buf = Some (hdr, rest) -> nth 0 hdr 0 = cache_magic -> nth 1 hdr 0 <> cache_version ->
  parse buf = PErr WrongVersion.
Proof. exact header_wrong_version. Qed.

(* a buffer is accepted exactly when it is at least as long as its header declares *)
Theorem C11_accepted_iff_long_enough : forall buf hdr rest,
  rd_words 6 buf = Some (hdr, rest) -> nth 0 hdr 0 = cache_magic -> nth 1 hdr 0 = cache_version ->
  ((exists c, parse buf = POk c) <->
   implied_length (nth 2 hdr 0) (nth 3 hdr 0) (nth 4 hdr 0) (nth 5 hdr 0) <= lenN buf).
Proof. exact accepted_iff_long_enough. Qed.

(* a buffer shorter than its declared sections or strings: the corresponding error kind *)
Theorem C11_short_buffer : forall buf hdr rest,
  rd_words 6 buf = Some (hdr, rest) -> nth 0 hdr 0 = cache_magic -> nth 1 hdr 0 = cache_version ->
  parse buf = match layout_result (nth 2 hdr 0) (nth 3 hdr 0) (nth 4 hdr 0) (nth 5 hdr 0) (lenN buf) with
              | Some e => PErr e
              | None => parse buf
              end.
Proof.
  intros buf hdr rest H Hm Hv.
  destruct (layout_result (nth 2 hdr 0) (nth 3 hdr 0) (nth 4 hdr 0) (nth 5 hdr 0) (lenN buf)) as [e|] eqn:E; [|reflexivity].
  pose proof (parse_by_length buf hdr rest H Hm Hv) as P. cbv zeta in P. rewrite E in P. exact P.
Qed.

(* the written file has exactly the length its header implies, and reads back *)
Theorem C11_roundtrip : forall s, struct_wf s = true -> parse (ser s) = POk (cache_of_struct s).
Proof. exact parse_ser. Qed.

Check C11_prefix_rejected : forall s n, struct_wf s = true -> (n < length (ser s))%nat ->
  parse (firstn n (ser s)) =
  PErr (prefix_err (lenN (cs_classes s)) (lenN (cs_members s)) (lenN (cs_byparams s))
                   (lenN (cs_strings s)) (N.of_nat n)).
