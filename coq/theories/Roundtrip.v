(* Roundtrip.v — DEFINITIONS ONLY (C05): an AST for the lines of the documented ProGuard mapping
   grammar, its printer, the record each line denotes, and a boolean well-formedness predicate.
   The theorems are in RoundtripProofs.v.

   Grammar (ProGuard manual / comments in src/mapping.rs):
     # key: value            # key            # {"id":"sourceFile","fileName":"F"}
     originalclassname -> obfuscatedclassname:
         originalfieldtype originalfieldname -> obfuscatedfieldname
         [startline:endline:]originalreturntype [originalclassname.]originalmethodname(originalargumenttype,...)[:originalstartline[:originalendline]] -> obfuscatedmethodname *)
From PG Require Import Base Mapping.

(* the optional `:originalstartline[:originalendline]` suffix of a method line *)
Inductive olines := ONone | OStart (os : N) | OStartEnd (os oe : N).

Inductive line_ast :=
| LHeader (key : str) (value : option str)
| LSourceFile (file : str)
| LClass (orig obf : str)
| LField (ty name obf : str)
| LMethod (lines : option (N * N)) (ty : str) (ocls : option str) (name args : str) (ol : olines) (obf : str).

(* ---------- printer ---------- *)
Definition print_ol (ol : olines) : str :=
  match ol with
  | ONone => []
  | OStart os => [58] ++ print_dec os
  | OStartEnd os oe => [58] ++ print_dec os ++ [58] ++ print_dec oe
  end.

Definition print_lines (lines : option (N * N)) : str :=
  match lines with
  | None => []
  | Some (s, e) => print_dec s ++ [58] ++ print_dec e ++ [58]
  end.

(* `[originalclassname.]originalmethodname` *)
Definition print_orig (ocls : option str) (name : str) : str :=
  match ocls with
  | Some c => c ++ [46] ++ name
  | None => name
  end.

(* a member line without its indentation *)
Definition member_body (a : line_ast) : str :=
  match a with
  | LField ty name obf => ty ++ [32] ++ name ++ arrow ++ obf
  | LMethod lines ty ocls name args ol obf =>
      print_lines lines ++ ty ++ [32] ++ print_orig ocls name ++ [40] ++ args ++ [41] ++ print_ol ol ++ arrow ++ obf
  | _ => []
  end.

Definition print_line (a : line_ast) : str :=
  match a with
  | LHeader key None => [35] ++ [32] ++ key
  | LHeader key (Some v) => [35] ++ [32] ++ key ++ [58] ++ [32] ++ v
  | LSourceFile file => [35] ++ source_file_prefix ++ file ++ [34; 125]
  | LClass orig obf => orig ++ arrow ++ obf ++ [58]
  | LField _ _ _ | LMethod _ _ _ _ _ _ _ => four_spaces ++ member_body a
  end.

(* ---------- the record a line denotes ---------- *)
Definition os_of (ol : olines) : option N :=
  match ol with ONone => None | OStart os => Some os | OStartEnd os _ => Some os end.
Definition oe_of (ol : olines) : option N :=
  match ol with OStartEnd _ oe => Some oe | _ => None end.

(* a line mapping exists iff `startline:endline:` is printed and both are positive *)
Definition lm_of (lines : option (N * N)) (ol : olines) : option line_mapping :=
  match lines with
  | Some (s, e) =>
      if (0 <? s) && (0 <? e)
      then Some {| lm_start := s; lm_end := e; lm_os := os_of ol; lm_oe := oe_of ol |}
      else None
  | None => None
  end.

Definition record_of (a : line_ast) : record :=
  match a with
  | LHeader key value => RHeader key value
  | LSourceFile file => RHeader source_file (Some file)
  | LClass orig obf => RClass orig obf
  | LField ty name obf => RField ty name obf
  | LMethod lines ty ocls name args ol obf => RMethod ty name obf args ocls (lm_of lines ol)
  end.

(* ---------- well-formedness ---------- *)
Definition lacks (c : byte) (l : str) : bool := forallb (fun x => negb (x =? c)) l.
Definition no_nl (l : str) : bool := forallb (fun x => negb (is_nl x)) l.
(* valid UTF-8 without CR / LF *)
Definition text (l : str) : bool := utf8_valid l && no_nl l.

Definition is_none {A} (o : option A) : bool := match o with Some _ => false | None => true end.
(* no leading and no trailing whitespace (char::is_whitespace), i.e. str::trim is the identity *)
Definition trimmed (l : str) : bool :=
  is_none (strip_ws_front l) && is_none (strip_ws_back_rev (rev l)).

(* empty, or the first byte is not numeric in the sense of parse_usize *)
Definition first_not_numeric (l : str) : bool :=
  match l with [] => true | c :: _ => negb (is_numeric c) end.
(* empty, or the first byte differs from c *)
Definition first_not (c : byte) (l : str) : bool :=
  match l with [] => true | x :: _ => negb (x =? c) end.

Definition lt64 (n : N) : bool := n <? U64.

Definition wf_ol (ol : olines) : bool :=
  match ol with
  | ONone => true
  | OStart os => lt64 os
  | OStartEnd os oe => lt64 os && lt64 oe
  end.

Definition wf_line (a : line_ast) : bool :=
  match a with
  | LHeader key value =>
      text key && lacks 58 key && trimmed key &&
      match value with
      | None => true
      | Some v => text v && trimmed v
      end
  | LSourceFile file => text file && lacks 34 file
  | LClass orig obf =>
      text orig && lacks 32 orig && first_not 35 orig &&
      text obf && lacks 58 obf
  | LField ty name obf =>
      text ty && lacks 32 ty && first_not_numeric ty &&
      text name && lacks 32 name && lacks 40 name &&
      text obf
  | LMethod lines ty ocls name args ol obf =>
      match lines with
      | Some (s, e) => lt64 s && lt64 e
      | None => first_not_numeric ty
      end &&
      text ty && lacks 32 ty &&
      match ocls with
      | Some c => text c && lacks 32 c && lacks 40 c
      | None => true
      end &&
      text name && lacks 32 name && lacks 40 name && lacks 46 name &&
      text args && lacks 41 args &&
      wf_ol ol &&
      text obf
  end.

(* ---------- documented malformations ---------- *)
(* class line without the trailing colon *)
Definition print_bad_class_nocolon (orig obf : str) : str := orig ++ arrow ++ obf.
(* class line whose arrow lacks the surrounding spaces *)
Definition print_bad_class_arrow (orig obf : str) : str := orig ++ [45; 62] ++ obf ++ [58].
(* member line indented by two spaces instead of four *)
Definition print_bad_indent (a : line_ast) : str := [32; 32] ++ member_body a.
(* member line with `startline:` but no `endline:` (a is a member without a line prefix) *)
Definition print_bad_noend (s : N) (a : line_ast) : str := four_spaces ++ print_dec s ++ [58] ++ member_body a.
(* method line without a return type *)
Definition print_bad_noret (ocls : option str) (name args : str) (ol : olines) (obf : str) : str :=
  four_spaces ++ print_orig ocls name ++ [40] ++ args ++ [41] ++ print_ol ol ++ arrow ++ obf.

Definition is_member (a : line_ast) : bool :=
  match a with LField _ _ _ | LMethod _ _ _ _ _ _ _ => true | _ => false end.
(* the member has a non-empty type or a line prefix: its body does not start with a space *)
Definition member_nonblank (a : line_ast) : bool :=
  match a with
  | LField ty _ _ => negb (is_empty ty)
  | LMethod lines ty _ _ _ _ _ => is_some lines || negb (is_empty ty)
  | _ => false
  end.
Definition no_line_prefix (a : line_ast) : bool :=
  match a with
  | LField _ _ _ => true
  | LMethod lines _ _ _ _ _ _ => negb (is_some lines)
  | _ => false
  end.
