(* Base.v — bytes, strings and the std-library string functions the code relies on.
   Conventions (DESIGN.md §2): bytes are [N] (< 256), strings are [list N];
   type abbreviations are Notations; model code tests bytes with [=?] only. *)
From Coq Require Export List NArith Bool.
Export ListNotations.
#[global] Open Scope N_scope.

Notation byte := N (only parsing).
Notation str := (list N) (only parsing).

#[global] Arguments N.add : simpl never.
#[global] Arguments N.sub : simpl never.
#[global] Arguments N.mul : simpl never.
#[global] Arguments N.eqb : simpl never.
#[global] Arguments N.ltb : simpl never.
#[global] Arguments N.leb : simpl never.
#[global] Arguments N.div : simpl never.
#[global] Arguments N.modulo : simpl never.
#[global] Arguments N.pow : simpl never.

(* Result of an operation that may panic (slice out of bounds, unwrap on None,
   arithmetic overflow in an overflow-checked build). *)
Inductive outcome (A : Type) := Ok (a : A) | Panic.
Arguments Ok {A}. Arguments Panic {A}.

Definition lenN {A} (l : list A) : N := N.of_nat (length l).

Definition is_nl (b : byte) : bool := (b =? 13) || (b =? 10).
Definition inr (lo hi b : N) : bool := (lo <=? b) && (b <=? hi).

(* split at the first byte satisfying p: iter().position(p) + split_at *)
Fixpoint span (p : byte -> bool) (l : str) : str * str :=
  match l with
  | [] => ([], [])
  | x :: xs => if p x then ([], l) else let '(a, b) := span p xs in (x :: a, b)
  end.

Fixpoint strip_prefix (pre l : str) : option str :=
  match pre, l with
  | [], _ => Some l
  | p :: ps, x :: xs => if p =? x then strip_prefix ps xs else None
  | _ :: _, [] => None
  end.
Definition starts_with (pre l : str) : bool :=
  match strip_prefix pre l with Some _ => true | None => false end.

(* consume_leading_newlines *)
Fixpoint drop_nl (l : str) : str :=
  match l with
  | x :: xs => if is_nl x then drop_nl xs else l
  | [] => []
  end.

Fixpoint str_eqb (a b : str) : bool :=
  match a, b with
  | [], [] => true
  | x :: a', y :: b' => (x =? y) && str_eqb a' b'
  | _, _ => false
  end.
Definition is_empty {A} (l : list A) : bool := match l with [] => true | _ => false end.

(* byte-lexicographic order = Rust str::cmp / [u8]::cmp *)
Fixpoint lex_cmp (a b : str) : comparison :=
  match a, b with
  | [], [] => Eq
  | [], _ :: _ => Lt
  | _ :: _, [] => Gt
  | x :: a', y :: b' => match x ?= y with Eq => lex_cmp a' b' | c => c end
  end.
Definition pair_cmp (a b : str * str) : comparison :=
  match lex_cmp (fst a) (fst b) with Eq => lex_cmp (snd a) (snd b) | c => c end.

(* core::str::from_utf8: well-formed UTF-8 (Unicode table 3-7) *)
Fixpoint utf8_valid (l : str) : bool :=
  match l with
  | [] => true
  | b0 :: r0 =>
    if b0 <? 128 then utf8_valid r0
    else match r0 with
    | [] => false
    | b1 :: r1 =>
      if inr 194 223 b0 then inr 128 191 b1 && utf8_valid r1
      else match r1 with
      | [] => false
      | b2 :: r2 =>
        if b0 =? 224 then inr 160 191 b1 && inr 128 191 b2 && utf8_valid r2
        else if inr 225 236 b0 || inr 238 239 b0 then inr 128 191 b1 && inr 128 191 b2 && utf8_valid r2
        else if b0 =? 237 then inr 128 159 b1 && inr 128 191 b2 && utf8_valid r2
        else match r2 with
        | [] => false
        | b3 :: r3 =>
          if b0 =? 240 then inr 144 191 b1 && inr 128 191 b2 && inr 128 191 b3 && utf8_valid r3
          else if inr 241 243 b0 then inr 128 191 b1 && inr 128 191 b2 && inr 128 191 b3 && utf8_valid r3
          else if b0 =? 244 then inr 128 143 b1 && inr 128 191 b2 && inr 128 191 b3 && utf8_valid r3
          else false
        end
      end
    end
  end.

(* (b as char).is_numeric() for a Latin-1 byte *)
Definition is_numeric (b : byte) : bool :=
  inr 48 57 b || (b =? 178) || (b =? 179) || (b =? 185) || inr 188 190 b.
Definition is_digit (b : byte) : bool := inr 48 57 b.

(* decimal value of ASCII digits; None if a non-digit occurs *)
Fixpoint dec_acc (acc : N) (l : str) : option N :=
  match l with
  | [] => Some acc
  | d :: r => if is_digit d then dec_acc (acc * 10 + (d - 48)) r else None
  end.
Definition parse_dec (l : str) : option N := match l with [] => None | _ => dec_acc 0 l end.

(* str::parse::<uN>: optional '+', then at least one digit, value < bound *)
Definition strip_plus (l : str) : str :=
  match l with
  | c :: r => if c =? 43 then r else l
  | [] => l
  end.
Definition parse_uint (bound : N) (l : str) : option N :=
  match parse_dec (strip_plus l) with
  | Some v => if v <? bound then Some v else None
  | None => None
  end.

Definition U64 : N := 18446744073709551616.
Definition U32 : N := 4294967296.
Definition MAX32 : N := 4294967295.
Definition MAX64 : N := 18446744073709551615.
Definition u32 (n : N) : N := n mod U32.

(* decimal printing (Display for usize) *)
Fixpoint dec_digits (fuel : nat) (n : N) (acc : str) : str :=
  match fuel with
  | O => acc
  | S f => let acc' := (48 + n mod 10) :: acc in
           if n / 10 =? 0 then acc' else dec_digits f (n / 10) acc'
  end.
Definition print_dec (n : N) : str := dec_digits 64 n [].

(* char::is_whitespace, on UTF-8 encoded input *)
Definition ws1 (b : byte) : bool := inr 9 13 b || (b =? 32).
Definition ws2 (a b : byte) : bool := (a =? 194) && ((b =? 133) || (b =? 160)).
Definition ws3 (a b c : byte) : bool :=
  ((a =? 225) && (b =? 154) && (c =? 128)) ||
  ((a =? 226) && (b =? 128) && (inr 128 138 c || (c =? 168) || (c =? 169) || (c =? 175))) ||
  ((a =? 226) && (b =? 129) && (c =? 159)) ||
  ((a =? 227) && (b =? 128) && (c =? 128)).
Definition strip_ws_front (l : str) : option str :=
  match l with
  | [] => None
  | a :: r1 =>
    if ws1 a then Some r1 else
    match r1 with
    | [] => None
    | b :: r2 =>
      if ws2 a b then Some r2 else
      match r2 with
      | [] => None
      | c :: r3 => if ws3 a b c then Some r3 else None
      end
    end
  end.
Fixpoint trim_start_fuel (f : nat) (l : str) : str :=
  match f with
  | O => l
  | S f' => match strip_ws_front l with Some r => trim_start_fuel f' r | None => l end
  end.
Definition trim_start (l : str) : str := trim_start_fuel (length l) l.
(* on the reversed string: last byte first *)
Definition strip_ws_back_rev (l : str) : option str :=
  match l with
  | [] => None
  | c :: r1 =>
    if ws1 c then Some r1 else
    match r1 with
    | [] => None
    | b :: r2 =>
      if ws2 b c then Some r2 else
      match r2 with
      | [] => None
      | a :: r3 => if ws3 a b c then Some r3 else None
      end
    end
  end.
Fixpoint trim_end_rev_fuel (f : nat) (l : str) : str :=
  match f with
  | O => l
  | S f' => match strip_ws_back_rev l with Some r => trim_end_rev_fuel f' r | None => l end
  end.
Definition trim_end (l : str) : str := rev (trim_end_rev_fuel (length l) (rev l)).
Definition trim (l : str) : str := trim_end (trim_start l).

(* str::lines: split on LF, strip one CR directly before that LF, no final empty piece.
   [cur] is the current piece, reversed. *)
Definition strip_cr_rev (cur : str) : str :=
  match cur with
  | c :: cur' => if c =? 13 then cur' else cur
  | [] => cur
  end.
Fixpoint split_nl (cur : str) (l : str) : list str :=
  match l with
  | [] => match cur with [] => [] | _ => [rev cur] end
  | c :: r => if c =? 10 then rev (strip_cr_rev cur) :: split_nl [] r
              else split_nl (c :: cur) r
  end.
Definition lines (l : str) : list str := split_nl [] l.

(* str::splitn(2, pat) / find: first occurrence of a pattern: (before, after) *)
Fixpoint find_sub (pat : str) (acc : str) (l : str) : option (str * str) :=
  match strip_prefix pat l with
  | Some r => Some (rev acc, r)
  | None => match l with [] => None | c :: r => find_sub pat (c :: acc) r end
  end.
Fixpoint split_once (c : byte) (l : str) : option (str * str) :=
  match l with
  | [] => None
  | x :: r => if x =? c then Some ([], r)
              else match split_once c r with Some (a, b) => Some (x :: a, b) | None => None end
  end.
Definition rsplit_once (c : byte) (l : str) : option (str * str) :=
  match split_once c (rev l) with Some (a, b) => Some (rev b, rev a) | None => None end.
Fixpoint ends_with (c : byte) (l : str) : bool :=
  match l with
  | [] => false
  | x :: r => match r with [] => x =? c | _ => ends_with c r end
  end.
Definition contains (c : byte) (l : str) : bool := existsb (fun x => x =? c) l.

Fixpoint assoc_get {V} (k : str) (l : list (str * V)) : option V :=
  match l with
  | [] => None
  | (k', v) :: r => if str_eqb k k' then Some v else assoc_get k r
  end.

Definition bind {A B} (o : option A) (f : A -> option B) : option B :=
  match o with Some a => f a | None => None end.
Notation "x <- e ;; k" := (bind e (fun x => k))
  (at level 61, e at next level, right associativity).
Notation "' p <- e ;; k" := (bind e (fun x => let p := x in k))
  (at level 61, p pattern, e at next level, right associativity).
