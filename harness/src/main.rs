//! vharness — runs getsentry/rust-proguard (the working tree in /repo) on generated cases.
//!   vharness gen <prop> <seed> <tier>      cases on stdout
//!   vharness run                            cases on stdin, canonical answers on stdout
mod gen;
mod props;
mod run;
mod trace;
mod util;
mod xver;

use std::io::{Read, Write};

fn main() {
    util::quiet_panics();
    let args: Vec<String> = std::env::args().collect();
    match args.get(1).map(|s| s.as_str()) {
        Some("gen") => {
            let prop = &args[2];
            let seed: u64 = args[3].parse().expect("seed");
            let tier = args.get(4).map(|s| s.as_str()).unwrap_or("quick");
            let cases = props::cases(prop, seed, tier);
            let stdout = std::io::stdout();
            let mut w = std::io::BufWriter::new(stdout.lock());
            for c in cases {
                writeln!(w, "{}", c).unwrap();
            }
        }
        Some("run") | Some("run-threads") => {
            if args[1] == "run-threads" {
                let n: usize = args.get(2).and_then(|s| s.parse().ok()).unwrap_or(8);
                run::THREADS.store(n, std::sync::atomic::Ordering::Relaxed);
            }
            let mut input = String::new();
            std::io::stdin().read_to_string(&mut input).unwrap();
            // deep recursion of the typed API needs stack; run on a big thread
            let h = std::thread::Builder::new()
                .stack_size(256 << 20)
                .spawn(move || run::run_cases(&input))
                .unwrap();
            let out = h.join().expect("runner thread");
            let stdout = std::io::stdout();
            let mut w = std::io::BufWriter::new(stdout.lock());
            for l in out {
                writeln!(w, "{}", l).unwrap();
            }
        }
        Some("expand") => {
            // vharness expand E1 <block>: the explicit cases behind one sweep digest
            let block: u64 = args[3].parse().expect("block");
            for l in run::e1_expand(block) {
                println!("{}", l);
            }
        }
        Some("facts") => {
            // observed constants of the cache format: magic bytes and version word of a written file
            let mut buf = Vec::new();
            proguard::ProguardCache::write(&proguard::ProguardMapping::new(b""), &mut buf).expect("write");
            println!("magic_bytes={},{},{},{}", buf[0], buf[1], buf[2], buf[3]);
            println!("version={}", u32::from_le_bytes([buf[4], buf[5], buf[6], buf[7]]));
        }
        Some("deep") => {
            // C13 / finding F8: the typed API recurses on the cause chain (remap, Display, Drop).
            // Runs on a thread with an 8 MiB stack (the default main-thread stack); a stack
            // overflow kills the process, which the runner observes as a signal.
            let n: usize = args[2].parse().expect("depth");
            let h = std::thread::Builder::new()
                .stack_size(8 << 20)
                .spawn(move || {
                    let mut text = String::from("a.b: top\n    at a.b.m(F:1)\n");
                    for i in 0..n {
                        text.push_str(&format!("Caused by: a.b: c{}\n    at a.b.m(F:{})\n", i, i % 7));
                    }
                    let mapping = "com.A -> a.b:\n    1:3:void run():10:12 -> m\n";
                    let mapper = proguard::ProguardMapper::from(mapping);
                    let parsed = proguard::StackTrace::try_parse(text.as_bytes()).expect("parses");
                    let typed = mapper.remap_stacktrace_typed(&parsed);
                    let printed = typed.to_string();
                    let text_api = mapper.remap_stacktrace(&text).expect("text api");
                    println!("depth={} typed_len={} same_as_text={}", n, printed.len(), printed == text_api);
                    drop(typed);
                    drop(parsed);
                    println!("dropped");
                })
                .unwrap();
            match h.join() {
                Ok(()) => {}
                Err(_) => {
                    println!("PANIC");
                    std::process::exit(3);
                }
            }
        }
        Some("deepsig") => {
            // C12 / C13 / C16: a descriptor with n array dimensions (and one with n parameters) through mapper
            // and cache, on a thread with the default 8 MiB main-thread stack; recursion per dimension would die
            let n: usize = args[2].parse().expect("dimensions");
            let h = std::thread::Builder::new()
                .stack_size(8 << 20)
                .spawn(move || {
                    let mapping = "com.A -> a.b:\n    1:3:void run():10:12 -> m\n";
                    let mapper = proguard::ProguardMapper::from(mapping);
                    let mut buf = Vec::new();
                    proguard::ProguardCache::write(&proguard::ProguardMapping::new(mapping.as_bytes()), &mut buf).expect("write");
                    let cache = proguard::ProguardCache::parse(&buf).expect("parse");
                    let deep = format!("({}La/b;)V", "[".repeat(n));
                    let wide = format!("({})[I", "La/b;".repeat(n));
                    for sig in [deep, wide] {
                        let a = mapper.deobfuscate_signature(&sig).map(|s| s.format_signature());
                        let b = cache.deobfuscate_signature(&sig).map(|s| s.format_signature());
                        println!("len={} same={} some={}", a.as_ref().map_or(0, |s| s.len()), a == b, a.is_some());
                    }
                    println!("done");
                })
                .unwrap();
            if h.join().is_err() {
                println!("PANIC");
                std::process::exit(3);
            }
        }
        Some("deepnl") => {
            // C06 / C13: runs of n consecutive line terminators (LF, CR, CRLF) before, between and after the
            // records, and a run of n unparsable lines, on a thread with the default 8 MiB stack; the records,
            // the mapper's answers and the cache bytes must equal those of the file without the blank lines.
            // Meant for the UNOPTIMISED build of the harness too (a recursion per blank line becomes a loop
            // under optimisation and would hide there).
            let n: usize = args[2].parse().expect("lines");
            let h = std::thread::Builder::new()
                .stack_size(8 << 20)
                .spawn(move || {
                    let plain = "com.A -> a.b:\n    1:3:void run():10:12 -> m\ncom.B -> c:\n    int f -> g\n";
                    for (name, nl) in [("lf", "\n"), ("cr", "\r"), ("crlf", "\r\n"), ("lfcr", "\n\r")] {
                        let run = nl.repeat(n);
                        let spaced = format!(
                            "{run}com.A -> a.b:{run}    1:3:void run():10:12 -> m{run}com.B -> c:{run}    int f -> g{run}"
                        );
                        let m0 = proguard::ProguardMapping::new(plain.as_bytes());
                        let m1 = proguard::ProguardMapping::new(spaced.as_bytes());
                        let r0: Vec<String> = m0.iter().map(|r| format!("{:?}", r)).collect();
                        let r1: Vec<String> = m1.iter().map(|r| format!("{:?}", r)).collect();
                        let (mut b0, mut b1) = (Vec::new(), Vec::new());
                        proguard::ProguardCache::write(&m0, &mut b0).expect("write");
                        proguard::ProguardCache::write(&m1, &mut b1).expect("write");
                        let mp = proguard::ProguardMapper::new(m1.clone());
                        let fr: Vec<String> = mp
                            .remap_frame(&proguard::StackFrame::new("a.b", "m", 2))
                            .map(|f| format!("{}", f))
                            .collect();
                        let s0 = m0.summary();
                        let s1 = m1.summary();
                        println!(
                            "{} records_same={} cache_same={} frame_ok={} valid={} lineinfo={} summary_same={}",
                            name,
                            r0 == r1 && r0.len() == 4,
                            b0 == b1,
                            fr.len() == 1 && fr[0].contains("com.A.run") && fr[0].contains(":11)"),
                            m1.is_valid(),
                            m1.has_line_info(),
                            (s0.compiler(), s0.compiler_version(), s0.min_api(), s0.class_count(), s0.method_count()) == (s1.compiler(), s1.compiler_version(), s1.min_api(), s1.class_count(), s1.method_count())
                        );
                    }
                    // n bad lines in a row: every one is its own error item, the record after them parses
                    let bad = format!("{}com.A -> a.b:\n", "-> x\n".repeat(n));
                    let m = proguard::ProguardMapping::new(bad.as_bytes());
                    let (mut errs, mut oks) = (0usize, 0usize);
                    for r in m.iter() {
                        if r.is_ok() {
                            oks += 1
                        } else {
                            errs += 1
                        }
                    }
                    println!("badrun errs_ok={} oks_ok={}", errs == n, oks == 1);
                    println!("done");
                })
                .unwrap();
            if h.join().is_err() {
                println!("PANIC");
                std::process::exit(3);
            }
        }
        Some("run-xver") => {
            let mut input = String::new();
            std::io::stdin().read_to_string(&mut input).unwrap();
            let out = xver::run_cases(&input);
            let stdout = std::io::stdout();
            let mut w = std::io::BufWriter::new(stdout.lock());
            for l in out {
                writeln!(w, "{}", l).unwrap();
            }
        }
        _ => {
            eprintln!("usage: vharness gen <prop> <seed> <tier> | run");
            std::process::exit(2);
        }
    }
}
