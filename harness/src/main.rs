//! vharness — runs getsentry/rust-proguard (the working tree in /repo) on generated cases.
//!   vharness gen <prop> <seed> <tier>      cases on stdout
//!   vharness run                            cases on stdin, canonical answers on stdout
mod gen;
mod props;
mod run;
mod trace;
mod util;
mod xver;

use std::io::{Read, Write};

fn main() {
    util::quiet_panics();
    let args: Vec<String> = std::env::args().collect();
    match args.get(1).map(|s| s.as_str()) {
        Some("gen") => {
            let prop = &args[2];
            let seed: u64 = args[3].parse().expect("seed");
            let tier = args.get(4).map(|s| s.as_str()).unwrap_or("quick");
            let cases = props::cases(prop, seed, tier);
            let stdout = std::io::stdout();
            let mut w = std::io::BufWriter::new(stdout.lock());
            for c in cases {
                writeln!(w, "{}", c).unwrap();
            }
        }
        Some("run") | Some("run-threads") => {
            if args[1] == "run-threads" {
                let n: usize = args.get(2).and_then(|s| s.parse().ok()).unwrap_or(8);
                run::THREADS.store(n, std::sync::atomic::Ordering::Relaxed);
            }
            let mut input = String::new();
            std::io::stdin().read_to_string(&mut input).unwrap();
            // deep recursion of the typed API needs stack; run on a big thread
            let h = std::thread::Builder::new()
                .stack_size(256 << 20)
                .spawn(move || run::run_cases(&input))
                .unwrap();
            let out = h.join().expect("runner thread");
            let stdout = std::io::stdout();
            let mut w = std::io::BufWriter::new(stdout.lock());
            for l in out {
                writeln!(w, "{}", l).unwrap();
            }
        }
        Some("expand") => {
            // vharness expand E1 <block>: the explicit cases behind one sweep digest
            let block: u64 = args[3].parse().expect("block");
            for l in run::e1_expand(block) {
                println!("{}", l);
            }
        }
        Some("facts") => {
            // observed constants of the cache format: magic bytes and version word of a written file
            let mut buf = Vec::new();
            proguard::ProguardCache::write(&proguard::ProguardMapping::new(b""), &mut buf).expect("write");
            println!("magic_bytes={},{},{},{}", buf[0], buf[1], buf[2], buf[3]);
            println!("version={}", u32::from_le_bytes([buf[4], buf[5], buf[6], buf[7]]));
        }
        Some("deep") => {
            // C13 / finding F8: the typed API recurses on the cause chain (remap, Display, Drop).
            // Runs on a thread with an 8 MiB stack (the default main-thread stack); a stack
            // overflow kills the process, which the runner observes as a signal.
            let n: usize = args[2].parse().expect("depth");
            let h = std::thread::Builder::new()
                .stack_size(8 << 20)
                .spawn(move || {
                    let mut text = String::from("a.b: top\n    at a.b.m(F:1)\n");
                    for i in 0..n {
                        text.push_str(&format!("Caused by: a.b: c{}\n    at a.b.m(F:{})\n", i, i % 7));
                    }
                    let mapping = "com.A -> a.b:\n    1:3:void run():10:12 -> m\n";
                    let mapper = proguard::ProguardMapper::from(mapping);
                    let parsed = proguard::StackTrace::try_parse(text.as_bytes()).expect("parses");
                    let typed = mapper.remap_stacktrace_typed(&parsed);
                    let printed = typed.to_string();
                    let text_api = mapper.remap_stacktrace(&text).expect("text api");
                    println!("depth={} typed_len={} same_as_text={}", n, printed.len(), printed == text_api);
                    drop(typed);
                    drop(parsed);
                    println!("dropped");
                })
                .unwrap();
            match h.join() {
                Ok(()) => {}
                Err(_) => {
                    println!("PANIC");
                    std::process::exit(3);
                }
            }
        }
        Some("deepsig") => {
            // C12 / C13 / C16: a descriptor with n array dimensions (and one with n parameters) through mapper
            // and cache, on a thread with the default 8 MiB main-thread stack; recursion per dimension would die
            let n: usize = args[2].parse().expect("dimensions");
            let h = std::thread::Builder::new()
                .stack_size(8 << 20)
                .spawn(move || {
                    let mapping = "com.A -> a.b:\n    1:3:void run():10:12 -> m\n";
                    let mapper = proguard::ProguardMapper::from(mapping);
                    let mut buf = Vec::new();
                    proguard::ProguardCache::write(&proguard::ProguardMapping::new(mapping.as_bytes()), &mut buf).expect("write");
                    let cache = proguard::ProguardCache::parse(&buf).expect("parse");
                    let deep = format!("({}La/b;)V", "[".repeat(n));
                    let wide = format!("({})[I", "La/b;".repeat(n));
                    for sig in [deep, wide] {
                        let a = mapper.deobfuscate_signature(&sig).map(|s| s.format_signature());
                        let b = cache.deobfuscate_signature(&sig).map(|s| s.format_signature());
                        println!("len={} same={} some={}", a.as_ref().map_or(0, |s| s.len()), a == b, a.is_some());
                    }
                    println!("done");
                })
                .unwrap();
            if h.join().is_err() {
                println!("PANIC");
                std::process::exit(3);
            }
        }
        Some("run-xver") => {
            let mut input = String::new();
            std::io::stdin().read_to_string(&mut input).unwrap();
            let out = xver::run_cases(&input);
            let stdout = std::io::stdout();
            let mut w = std::io::BufWriter::new(stdout.lock());
            for l in out {
                writeln!(w, "{}", l).unwrap();
            }
        }
        _ => {
            eprintln!("usage: vharness gen <prop> <seed> <tier> | run");
            std::process::exit(2);
        }
    }
}
