//! vharness — runs getsentry/rust-proguard (the working tree in /repo) on generated cases.
//!   vharness gen <prop> <seed> <tier>      cases on stdout
//!   vharness run                            cases on stdin, canonical answers on stdout
mod gen;
mod props;
mod run;
mod trace;
mod util;
mod xver;

use std::io::{Read, Write};

fn main() {
    util::quiet_panics();
    let args: Vec<String> = std::env::args().collect();
    match args.get(1).map(|s| s.as_str()) {
        Some("gen") => {
            let prop = &args[2];
            let seed: u64 = args[3].parse().expect("seed");
            let tier = args.get(4).map(|s| s.as_str()).unwrap_or("quick");
            let cases = props::cases(prop, seed, tier);
            let stdout = std::io::stdout();
            let mut w = std::io::BufWriter::new(stdout.lock());
            for c in cases {
                writeln!(w, "{}", c).unwrap();
            }
        }
        Some("run") | Some("run-threads") => {
            if args[1] == "run-threads" {
                let n: usize = args.get(2).and_then(|s| s.parse().ok()).unwrap_or(8);
                run::THREADS.store(n, std::sync::atomic::Ordering::Relaxed);
            }
            let mut input = String::new();
            std::io::stdin().read_to_string(&mut input).unwrap();
            // deep recursion of the typed API needs stack; run on a big thread
            let h = std::thread::Builder::new()
                .stack_size(256 << 20)
                .spawn(move || run::run_cases(&input))
                .unwrap();
            let out = h.join().expect("runner thread");
            let stdout = std::io::stdout();
            let mut w = std::io::BufWriter::new(stdout.lock());
            for l in out {
                writeln!(w, "{}", l).unwrap();
            }
        }
        Some("run-xver") => {
            let mut input = String::new();
            std::io::stdin().read_to_string(&mut input).unwrap();
            let out = xver::run_cases(&input);
            let stdout = std::io::stdout();
            let mut w = std::io::BufWriter::new(stdout.lock());
            for l in out {
                writeln!(w, "{}", l).unwrap();
            }
        }
        _ => {
            eprintln!("usage: vharness gen <prop> <seed> <tier> | run");
            std::process::exit(2);
        }
    }
}
