//! Shared helpers: PRNG, hex tokens, aligned buffers, panic capture.
use std::panic::{catch_unwind, AssertUnwindSafe};

/// splitmix64; every random choice of a run derives from one state.
#[derive(Clone)]
pub struct Rng(pub u64);
impl Rng {
    pub fn next(&mut self) -> u64 {
        self.0 = self.0.wrapping_add(0x9E3779B97F4A7C15);
        let mut z = self.0;
        z = (z ^ (z >> 30)).wrapping_mul(0xBF58476D1CE4E5B9);
        z = (z ^ (z >> 27)).wrapping_mul(0x94D049BB133111EB);
        z ^ (z >> 31)
    }
    pub fn below(&mut self, n: usize) -> usize {
        if n == 0 {
            0
        } else {
            (self.next() % n as u64) as usize
        }
    }
    pub fn pick<'a, T>(&mut self, v: &'a [T]) -> &'a T {
        &v[self.below(v.len())]
    }
    pub fn chance(&mut self, num: usize, den: usize) -> bool {
        self.below(den) < num
    }
    pub fn fork(&mut self) -> Rng {
        Rng(self.next())
    }
}

pub fn hex(b: &[u8]) -> String {
    let mut s = String::with_capacity(1 + 2 * b.len());
    s.push('x');
    for x in b {
        s.push_str(&format!("{:02x}", x));
    }
    s
}
pub fn ohex(b: Option<&str>) -> String {
    match b {
        None => "~".to_string(),
        Some(s) => hex(s.as_bytes()),
    }
}
pub fn unhex(s: &str) -> Vec<u8> {
    let s = s.strip_prefix('x').expect("hex token");
    (0..s.len() / 2)
        .map(|i| u8::from_str_radix(&s[2 * i..2 * i + 2], 16).expect("hex digit"))
        .collect()
}

/// A byte buffer whose base address is a multiple of 8 (ProguardCache::parse casts in place).
pub struct AlignedBuf {
    store: Vec<u64>,
    len: usize,
}
impl AlignedBuf {
    pub fn new(bytes: &[u8]) -> Self {
        let mut store = vec![0u64; bytes.len() / 8 + 1];
        unsafe {
            std::ptr::copy_nonoverlapping(bytes.as_ptr(), store.as_mut_ptr() as *mut u8, bytes.len());
        }
        AlignedBuf { store, len: bytes.len() }
    }
    pub fn bytes(&self) -> &[u8] {
        unsafe { std::slice::from_raw_parts(self.store.as_ptr() as *const u8, self.len) }
    }
}

/// A copy of `bytes` whose first byte sits at an address congruent to `off` modulo 8: the answers of
/// the library must not depend on where the caller's bytes happen to live.
pub struct OffsetBuf {
    store: Vec<u64>,
    off: usize,
    len: usize,
}
impl OffsetBuf {
    pub fn new(bytes: &[u8], off: usize) -> Self {
        let off = off % 8;
        let mut store = vec![0u64; (bytes.len() + off) / 8 + 1];
        unsafe {
            std::ptr::copy_nonoverlapping(bytes.as_ptr(), (store.as_mut_ptr() as *mut u8).add(off), bytes.len());
        }
        OffsetBuf { store, off, len: bytes.len() }
    }
    pub fn bytes(&self) -> &[u8] {
        unsafe { std::slice::from_raw_parts((self.store.as_ptr() as *const u8).add(self.off), self.len) }
    }
    /// overwrite the content in place (same address, same length)
    pub fn overwrite(&mut self, bytes: &[u8]) {
        assert_eq!(bytes.len(), self.len);
        unsafe {
            std::ptr::copy_nonoverlapping(bytes.as_ptr(), (self.store.as_mut_ptr() as *mut u8).add(self.off), bytes.len());
        }
    }
}

pub fn quiet_panics() {
    std::panic::set_hook(Box::new(|_| {}));
}

/// Runs `f`, mapping a panic to None.
pub fn guarded<T>(f: impl FnOnce() -> T) -> Option<T> {
    catch_unwind(AssertUnwindSafe(f)).ok()
}
