//! Runs case files against the implementation in /repo and prints canonical answers,
//! one line per input line (same protocol as model/driver.ml).
use crate::util::*;
use proguard::*;

fn show_lm(lm: &Option<LineMapping>) -> String {
    match lm {
        None => "~".into(),
        Some(l) => format!(
            "{},{},{},{}",
            l.startline,
            l.endline,
            l.original_startline.map_or("~".into(), |x| x.to_string()),
            l.original_endline.map_or("~".into(), |x| x.to_string())
        ),
    }
}

pub fn show_item(it: &Result<ProguardRecord, ParseError>) -> String {
    match it {
        Err(e) => format!("E|{}", hex(e.line())),
        Ok(ProguardRecord::Header { key, value }) => format!("H|{}|{}", hex(key.as_bytes()), ohex(*value)),
        Ok(ProguardRecord::Class { original, obfuscated }) => {
            format!("C|{}|{}", hex(original.as_bytes()), hex(obfuscated.as_bytes()))
        }
        Ok(ProguardRecord::Field { ty, original, obfuscated }) => format!(
            "F|{}|{}|{}",
            hex(ty.as_bytes()),
            hex(original.as_bytes()),
            hex(obfuscated.as_bytes())
        ),
        Ok(ProguardRecord::Method { ty, original, obfuscated, arguments, original_class, line_mapping }) => format!(
            "M|{}|{}|{}|{}|{}|{}",
            hex(ty.as_bytes()),
            hex(original.as_bytes()),
            hex(obfuscated.as_bytes()),
            hex(arguments.as_bytes()),
            ohex(*original_class),
            show_lm(line_mapping)
        ),
    }
}

fn show_frame(f: &StackFrame) -> String {
    format!("{}:{}:{}:{}", hex(f.class().as_bytes()), hex(f.method().as_bytes()), ohex(f.file()), f.line())
}
fn show_frames<'a>(it: impl Iterator<Item = StackFrame<'a>>) -> String {
    let v: Vec<String> = it.map(|f| show_frame(&f)).collect();
    format!("[{}]", v.join(","))
}
fn show_pframes<'a>(it: impl Iterator<Item = StackFrame<'a>>) -> String {
    // parameter based answers: class and method; line must be 0 and file absent
    let v: Vec<String> = it
        .map(|f| {
            let extra = if f.line() != 0 || f.file().is_some() {
                format!("!line={}file={}", f.line(), ohex(f.file()))
            } else {
                String::new()
            };
            format!("{}:{}{}", hex(f.class().as_bytes()), hex(f.method().as_bytes()), extra)
        })
        .collect();
    format!("[{}]", v.join(","))
}
fn show_pair(p: Option<(&str, &str)>) -> String {
    match p {
        None => "~".into(),
        Some((a, b)) => format!("{}:{}", hex(a.as_bytes()), hex(b.as_bytes())),
    }
}
fn show_sig(s: Option<DeobfuscatedSignature>) -> String {
    match s {
        None => "~".into(),
        Some(s) => {
            let ps: Vec<String> = s.parameters_types().map(|p| hex(p.as_bytes())).collect();
            format!("({}){}/{}", ps.join(","), hex(s.return_type().as_bytes()), hex(s.format_signature().as_bytes()))
        }
    }
}
pub fn show_cache_err(e: &CacheError) -> String {
    match e.kind() {
        CacheErrorKind::WrongEndianness => "WrongEndianness".into(),
        CacheErrorKind::WrongFormat => "WrongFormat".into(),
        CacheErrorKind::WrongVersion => "WrongVersion".into(),
        CacheErrorKind::InvalidHeader => "InvalidHeader".into(),
        CacheErrorKind::InvalidClasses => "InvalidClasses".into(),
        CacheErrorKind::InvalidMembers => "InvalidMembers".into(),
        CacheErrorKind::UnexpectedStringBytes { expected, found } => {
            format!("UnexpectedStringBytes({},{})", expected, found)
        }
        _ => "OtherError".into(),
    }
}

fn depth(t: &StackTrace) -> usize {
    let mut d = 0;
    let mut c = t.cause();
    while let Some(x) = c {
        d += 1;
        c = x.cause();
    }
    d
}

fn or_panic(x: Option<String>) -> String {
    x.unwrap_or_else(|| "PANIC".to_string())
}

fn mk_frame<'a>(c: &'a str, m: &'a str, line: usize, file: Option<&'a str>) -> StackFrame<'a> {
    match file {
        None => StackFrame::new(c, m, line),
        Some(f) => StackFrame::with_file(c, m, line, f),
    }
}

struct Tok {
    strs: Vec<String>,
}
impl Tok {
    fn s(&self, i: usize) -> &str {
        &self.strs[i]
    }
}
/// decodes the hex tokens of an op into owned Strings (lossy never happens: generators emit
/// valid UTF-8 for &str arguments; invalid UTF-8 is only sent to byte-level ops)
fn decode(toks: &[&str]) -> Option<Tok> {
    let mut strs = Vec::new();
    for t in toks {
        if *t == "~" {
            strs.push(String::new());
        } else if t.starts_with('x') {
            strs.push(String::from_utf8(unhex(t)).ok()?);
        } else {
            strs.push(t.to_string());
        }
    }
    Some(Tok { strs })
}

/// queries against a parsed cache (used for both the cache written from the mapping and
/// buffers handed in by X)
fn cache_query(cache: &ProguardCache, op: &str, toks: &[&str]) -> String {
    let Some(t) = decode(toks) else { return "BADUTF8".into() };
    match op {
        "k" => or_panic(guarded(|| ohex(cache.remap_class(t.s(0))))),
        "t" => or_panic(guarded(|| show_pair(cache.remap_method(t.s(0), t.s(1))))),
        "l" => {
            let line: usize = t.s(2).parse().expect("line");
            let file = if toks[3] == "~" { None } else { Some(t.s(3)) };
            or_panic(guarded(|| show_frames(cache.remap_frame(&mk_frame(t.s(0), t.s(1), line, file)))))
        }
        "p" => or_panic(guarded(|| {
            show_pframes(cache.remap_frame(&StackFrame::with_parameters(t.s(0), t.s(1), t.s(2))))
        })),
        "s" => or_panic(guarded(|| match cache.remap_stacktrace(t.s(0)) {
            Ok(s) => hex(s.as_bytes()),
            Err(_) => "FMTERR".into(),
        })),
        "g" => or_panic(guarded(|| show_sig(cache.deobfuscate_signature(t.s(0))))),
        _ => "UNKNOWN-OP".into(),
    }
}

/// checks that a returned string lies inside the buffer or inside one of the query strings
#[allow(dead_code)]
pub fn within(hay: &[u8], s: &str) -> bool {
    let (hp, sp) = (hay.as_ptr() as usize, s.as_ptr() as usize);
    s.is_empty() || (sp >= hp && sp + s.len() <= hp + hay.len())
}

/// number of threads answering the operations of a mapping group (C20 / C14); 1 = sequential
pub static THREADS: std::sync::atomic::AtomicUsize = std::sync::atomic::AtomicUsize::new(1);

// compile-time part of C20: the public handle, iterator and result types are Send + Sync
#[allow(dead_code)]
fn assert_send_sync<T: Send + Sync>() {}
#[allow(dead_code)]
fn static_assertions() {
    assert_send_sync::<ProguardMapper<'static>>();
    assert_send_sync::<ProguardCache<'static>>();
    assert_send_sync::<ProguardMapping<'static>>();
    assert_send_sync::<proguard::RemappedFrameIter<'static>>();
    assert_send_sync::<ProguardRecordIter<'static>>();
    assert_send_sync::<ProguardRecord<'static>>();
    assert_send_sync::<ParseError<'static>>();
    assert_send_sync::<StackFrame<'static>>();
    assert_send_sync::<StackTrace<'static>>();
    assert_send_sync::<Throwable<'static>>();
    assert_send_sync::<DeobfuscatedSignature>();
    assert_send_sync::<CacheError>();
    assert_send_sync::<MappingSummary<'static>>();
}

struct Ctx<'a> {
    mapping: &'a [u8],
    /// the mapper built through `From<(&str, bool)>` (valid UTF-8 mappings only): must answer as `mapper`
    mapper_from: Option<ProguardMapper<'a>>,
    mapper: Option<ProguardMapper<'a>>,
    mapper0: Option<ProguardMapper<'a>>,
    cache_bytes: Option<&'a AlignedBuf>,
    cache: Option<ProguardCache<'a>>,
    cache_state: &'static str,
}

fn run_mapping_ops(mapping: &[u8], ops: &[&str], out: &mut Vec<String>) {
    let pm = ProguardMapping::new(mapping);
    let mapper = guarded(|| ProguardMapper::new_with_param_mapping(pm.clone(), true));
    let mapper0 = guarded(|| ProguardMapper::new(pm.clone()));
    let written: Option<Option<Vec<u8>>> = guarded(|| {
        let mut buf = Vec::new();
        match ProguardCache::write(&pm, &mut buf) {
            Ok(()) => Some(buf),
            Err(_) => None,
        }
    });
    let (abuf, mut cache_state) = match &written {
        None => (None, "PANIC"),
        Some(None) => (None, "WRITEERR"),
        Some(Some(b)) => (Some(AlignedBuf::new(b)), "ok"),
    };
    let cache = match &abuf {
        None => None,
        Some(a) => match guarded(|| ProguardCache::parse(a.bytes())) {
            None => {
                cache_state = "PANIC";
                None
            }
            Some(Err(_)) => {
                cache_state = "noparse";
                None
            }
            Some(Ok(c)) => Some(c),
        },
    };
    let mapper_from = match std::str::from_utf8(mapping) {
        Ok(text) if mapping.len() < (1 << 20) => guarded(|| ProguardMapper::from((text, true))),
        _ => None,
    };
    let ctx = Ctx { mapping, mapper_from, mapper, mapper0, cache_bytes: abuf.as_ref(), cache, cache_state };
    let nthreads = THREADS.load(std::sync::atomic::Ordering::Relaxed);
    if nthreads <= 1 || ops.len() < 2 {
        for op in ops {
            out.push(run_op(&ctx, op));
        }
        return;
    }
    // one shared mapper / cache, the queries split over the threads in a seeded random way;
    // every thread yields at random points to vary the interleaving
    let mut rng = Rng(0x20c0 ^ (ops.len() as u64).wrapping_mul(0x9E37) ^ mapping.len() as u64);
    let assignment: Vec<usize> = ops.iter().map(|_| rng.below(nthreads)).collect();
    let mut answers: Vec<Option<String>> = vec![None; ops.len()];
    let ctx_ref = &ctx;
    let results: Vec<Vec<(usize, String)>> = std::thread::scope(|sc| {
        let handles: Vec<_> = (0..nthreads)
            .map(|t| {
                let assignment = &assignment;
                let mut trng = Rng(rng.next());
                sc.spawn(move || {
                    let mut mine = Vec::new();
                    for (i, op) in ops.iter().enumerate() {
                        if assignment[i] == t {
                            if trng.chance(1, 3) {
                                std::thread::yield_now();
                            }
                            mine.push((i, run_op(ctx_ref, op)));
                        }
                    }
                    mine
                })
            })
            .collect();
        handles.into_iter().map(|h| h.join().unwrap_or_default()).collect()
    });
    for v in results {
        for (i, a) in v {
            answers[i] = Some(a);
        }
    }
    for a in answers {
        out.push(a.unwrap_or_else(|| "THREAD-DIED".to_string()));
    }
}

/// `;f=<answer>` of the mapper built by the `From<(&str, bool)>` constructor, when there is one
fn from_answer(ctx: &Ctx, f: &dyn Fn(&ProguardMapper) -> String) -> String {
    match &ctx.mapper_from {
        None => String::new(),
        Some(m) => format!(";f={}", or_panic(guarded(|| f(m)))),
    }
}

fn run_op(ctx: &Ctx, line: &str) -> String {
    let toks: Vec<&str> = line.split(' ').filter(|t| !t.starts_with('=')).collect();
    let pm = ProguardMapping::new(ctx.mapping);
    let with_mapper = |f: &dyn Fn(&ProguardMapper) -> String, m: &Option<ProguardMapper>| -> String {
        match m {
            None => "PANIC".into(),
            Some(m) => or_panic(guarded(|| f(m))),
        }
    };
    let with_cache = |op: &str, toks: &[&str]| -> String {
        match &ctx.cache {
            None => ctx.cache_state.to_string(),
            Some(c) => cache_query(c, op, toks),
        }
    };
    // KI / TI / LI / PI: the same queries, answered by the implementation only (mapper = cache is still
    // required); used where the model would be quadratic
    let op0 = match toks[0] {
        "KI" => "K",
        "TI" => "T",
        "LI" => "L",
        "PI" => "P",
        o => o,
    };
    match op0 {
        "I" => or_panic(guarded(|| {
            let v: Vec<String> = pm.iter().map(|it| show_item(&it)).collect();
            // the iterator adapters (nth / skip / step_by / last / count) must walk the same stream
            let mut ok = pm.iter().count() == v.len() && pm.iter().last().map(|it| show_item(&it)) == v.last().cloned();
            for k in [0usize, 1, 2, 3, 5, 8] {
                ok &= pm.iter().nth(k).map(|it| show_item(&it)) == v.get(k).cloned();
                ok &= pm.iter().skip(k).next().map(|it| show_item(&it)) == v.get(k).cloned();
            }
            let stepped: Vec<String> = pm.iter().step_by(2).map(|it| show_item(&it)).collect();
            ok &= stepped == v.iter().step_by(2).cloned().collect::<Vec<_>>();
            if ok {
                v.join(";")
            } else {
                format!("{};ITERATOR-PROTOCOL", v.join(";"))
            }
        })),
        "D" => or_panic(guarded(|| {
            let s = pm.summary();
            format!(
                "hl={};iv={};sum={},{},{},{},{}",
                pm.has_line_info() as u8,
                pm.is_valid() as u8,
                ohex(s.compiler()),
                ohex(s.compiler_version()),
                s.min_api().map_or("~".into(), |x| x.to_string()),
                s.class_count(),
                s.method_count()
            )
        })),
        "K" => {
            let Some(t) = decode(&toks[1..]) else { return "BADUTF8".into() };
            format!(
                "m={};n={};c={}",
                with_mapper(&|m| ohex(m.remap_class(t.s(0))), &ctx.mapper),
                with_mapper(&|m| ohex(m.remap_class(t.s(0))), &ctx.mapper0),
                with_cache("k", &toks[1..])
            ) + &from_answer(ctx, &|m| ohex(m.remap_class(t.s(0))))
        }
        "T" => {
            let Some(t) = decode(&toks[1..]) else { return "BADUTF8".into() };
            format!(
                "m={};n={};c={}",
                with_mapper(&|m| show_pair(m.remap_method(t.s(0), t.s(1))), &ctx.mapper),
                with_mapper(&|m| show_pair(m.remap_method(t.s(0), t.s(1))), &ctx.mapper0),
                with_cache("t", &toks[1..])
            ) + &from_answer(ctx, &|m| show_pair(m.remap_method(t.s(0), t.s(1))))
        }
        "L" => {
            let Some(t) = decode(&toks[1..]) else { return "BADUTF8".into() };
            let line: usize = t.s(2).parse().expect("line");
            let file = if toks[4] == "~" { None } else { Some(t.s(3)) };
            format!(
                "m={};n={};c={}",
                with_mapper(&|m| show_frames(m.remap_frame(&mk_frame(t.s(0), t.s(1), line, file))), &ctx.mapper),
                with_mapper(&|m| show_frames(m.remap_frame(&mk_frame(t.s(0), t.s(1), line, file))), &ctx.mapper0),
                with_cache("l", &toks[1..])
            ) + &from_answer(ctx, &|m| show_frames(m.remap_frame(&mk_frame(t.s(0), t.s(1), line, file))))
        }
        "P" => {
            let Some(t) = decode(&toks[1..]) else { return "BADUTF8".into() };
            format!(
                "m={};c={}",
                with_mapper(
                    &|m| show_pframes(m.remap_frame(&StackFrame::with_parameters(t.s(0), t.s(1), t.s(2)))),
                    &ctx.mapper
                ),
                with_cache("p", &toks[1..])
            )
        }
        "S" => {
            let Some(t) = decode(&toks[1..]) else { return "BADUTF8".into() };
            let f = |m: &ProguardMapper| match m.remap_stacktrace(t.s(0)) {
                Ok(s) => hex(s.as_bytes()),
                Err(_) => "FMTERR".into(),
            };
            format!(
                "m={};n={};c={}",
                with_mapper(&f, &ctx.mapper),
                with_mapper(&f, &ctx.mapper0),
                with_cache("s", &toks[1..])
            )
        }
        "Y" => {
            let bytes = unhex(toks[1]);
            or_panic(guarded(|| match StackTrace::try_parse(&bytes) {
                None => "none".to_string(),
                Some(tr) => {
                    let text = std::str::from_utf8(&bytes).unwrap();
                    let typed = |m: &ProguardMapper| {
                        let r = m.remap_stacktrace_typed(&tr);
                        format!("{}/{}", depth(&r), hex(r.to_string().as_bytes()))
                    };
                    let mt = with_mapper(&typed, &ctx.mapper);
                    let ct = match &ctx.cache {
                        None => ctx.cache_state.to_string(),
                        Some(c) => or_panic(guarded(|| {
                            let r = c.remap_stacktrace_typed(&tr);
                            format!("{}/{}", depth(&r), hex(r.to_string().as_bytes()))
                        })),
                    };
                    // the text API on the canonical print of the parsed trace
                    let printed = tr.to_string();
                    let tx = with_mapper(
                        &|m| match m.remap_stacktrace(&printed) {
                            Ok(s) => hex(s.as_bytes()),
                            Err(_) => "FMTERR".into(),
                        },
                        &ctx.mapper,
                    );
                    let _ = text;
                    format!("d={};p={};m={};c={};x={}", depth(&tr), hex(printed.as_bytes()), mt, ct, tx)
                }
            }))
        }
        "YA" => or_panic(guarded(|| run_typed_ast(ctx, &toks[1..]))),
        "G" => {
            let Some(t) = decode(&toks[1..]) else { return "BADUTF8".into() };
            format!(
                "m={};c={}",
                with_mapper(&|m| show_sig(m.deobfuscate_signature(t.s(0))), &ctx.mapper),
                with_cache("g", &toks[1..])
            )
        }
        "U" => or_panic(guarded(|| {
            let u = pm.uuid();
            // history / address independence: a buffer that held other bytes of the same length before
            // (a reused read buffer, an in-place edit) gets the identifier of its current content
            let inplace = if ctx.mapping.is_empty() || ctx.mapping.len() > (1 << 18) {
                true
            } else {
                let mut other = ctx.mapping.to_vec();
                let k = other.len() / 2;
                other[k] ^= 0x20;
                let mut buf = OffsetBuf::new(&other, ctx.mapping.len() % 8);
                let u_other = ProguardMapping::new(buf.bytes()).uuid();
                buf.overwrite(ctx.mapping);
                let u_same = ProguardMapping::new(buf.bytes()).uuid();
                u_same == u && u_other != u
            };
            format!("u={};inplace={}", hex(u.as_bytes()), inplace as u8)
        })),
        "US" => or_panic(guarded(|| {
            // history: hash the parent first, then the section taken from it, then the parent again
            let (a, b): (usize, usize) = (toks[1].parse().expect("start"), toks[2].parse().expect("end"));
            let before = pm.uuid();
            let sec = pm.section(a..b);
            let su = sec.uuid();
            let su2 = sec.section(0..(b - a)).uuid();
            let after = pm.uuid();
            format!("u={};again={};parent_stable={}", hex(su.as_bytes()), hex(su2.as_bytes()), (before == after) as u8)
        })),
        "SEC" => or_panic(guarded(|| {
            let (a, b): (usize, usize) = (toks[1].parse().expect("start"), toks[2].parse().expect("end"));
            let (a, b) = (a.min(ctx.mapping.len()), b.min(ctx.mapping.len()));
            let (a, b) = (a.min(b), b);
            // history: the parent answers everything first
            let _ = (pm.has_line_info(), pm.is_valid(), pm.summary().class_count(), pm.iter().count());
            let mut pw = Vec::new();
            let _ = ProguardCache::write(&pm, &mut pw);
            let sec = pm.section(a..b);
            let fresh = ProguardMapping::new(&ctx.mapping[a..b]);
            let show = |m: &ProguardMapping| {
                let s = m.summary();
                let mut w = Vec::new();
                let r = ProguardCache::write(m, &mut w).is_ok();
                let items: Vec<String> = m.iter().map(|it| show_item(&it)).collect();
                format!("{}|{}|{:?}|{:?}|{:?}|{}|{}|{}|{}|{}", m.has_line_info(), m.is_valid(), s.compiler(), s.compiler_version(), s.min_api(), s.class_count(), s.method_count(), r, hex(&w), items.join(";"))
            };
            let same = show(&sec) == show(&fresh);
            // and the parent is not influenced by its sections
            let mut pw2 = Vec::new();
            let _ = ProguardCache::write(&pm, &mut pw2);
            format!("sec={};parent={}", same as u8, (pw == pw2) as u8)
        })),
        "DOM" => format!("dom={}", crate::props::representable(ctx.mapping) as u8),
        "Z" | "ZI" => or_panic(guarded(|| run_sink_op(ctx.mapping, &toks[1..]))),
        "W" => match ctx.cache_bytes {
            None => format!("w={}", ctx.cache_state),
            Some(a) => {
                let test = match &ctx.cache {
                    None => ctx.cache_state.to_string(),
                    Some(c) => match guarded(|| c.test()) {
                        Some(()) => "ok".into(),
                        None => "PANIC".into(),
                    },
                };
                // the same mapping bytes at every address modulo 8 give the same cache bytes
                let al = ctx.mapping.len() > (1 << 16)
                    || (0..8).all(|off| {
                        let ob = OffsetBuf::new(ctx.mapping, off);
                        let pm2 = ProguardMapping::new(ob.bytes());
                        let mut buf = Vec::new();
                        matches!(guarded(|| ProguardCache::write(&pm2, &mut buf).is_ok()), Some(true)) && buf == a.bytes()
                    });
                format!("w={};test={};al={}", hex(a.bytes()), test, al as u8)
            }
        },
        _ => format!("UNKNOWN-OP {}", toks[0]),
    }
}

fn run_x_ops(buf: &[u8], ops: &[&str], out: &mut Vec<String>) {
    let a = AlignedBuf::new(buf);
    let parsed = guarded(|| ProguardCache::parse(a.bytes()));
    // the same bytes at the seven other addresses modulo 8: rejected, or accepted and answering every
    // query exactly as the aligned buffer does (never accepted where the aligned buffer is rejected)
    let others: Vec<OffsetBuf> = (1..8).map(|k| OffsetBuf::new(buf, k)).collect();
    let mut mis = Vec::new();
    let mut others_parsed = Vec::new();
    for (k, ob) in others.iter().enumerate() {
        match guarded(|| ProguardCache::parse(ob.bytes())) {
            None => mis.push(format!("{}P", k + 1)),
            Some(Ok(c)) => {
                if !matches!(&parsed, Some(Ok(_))) {
                    mis.push(format!("{}A", k + 1));
                }
                others_parsed.push((k + 1, c));
            }
            Some(Err(_)) => {}
        }
    }
    let misflag = if mis.is_empty() { String::new() } else { format!(";mis={}", mis.join(",")) };
    match &parsed {
        None => out.push(format!("r=PANIC{}", misflag)),
        Some(Err(e)) => out.push(format!("r={}{}", show_cache_err(e), misflag)),
        Some(Ok(_)) => out.push(format!("r=ok{}", misflag)),
    }
    for op in ops {
        let toks: Vec<&str> = op.split(' ').collect();
        let ans = match &parsed {
            Some(Ok(c)) => cache_query(c, toks[0], &toks[1..]),
            Some(Err(_)) => "noparse".into(),
            None => "PANIC".into(),
        };
        let mut diff = Vec::new();
        if matches!(&parsed, Some(Ok(_))) {
            for (k, c) in &others_parsed {
                if cache_query(c, toks[0], &toks[1..]) != ans {
                    diff.push(k.to_string());
                }
            }
        }
        let d = if diff.is_empty() { String::new() } else { format!(";misdiff={}", diff.join(",")) };
        out.push(format!("c={}{}", ans, d));
    }
}

fn run_free_op(line: &str) -> String {
    let toks: Vec<&str> = line.split(' ').filter(|t| !t.starts_with('=')).collect();
    match toks[0] {
        "R" => {
            let b = unhex(toks[1]);
            or_panic(guarded(|| show_item(&ProguardRecord::try_parse(&b))))
        }
        "FR" => {
            let b = unhex(toks[1]);
            or_panic(guarded(|| match StackFrame::try_parse(&b) {
                None => "~".into(),
                Some(f) => show_frame(&f),
            }))
        }
        "TH" => {
            let b = unhex(toks[1]);
            or_panic(guarded(|| match Throwable::try_parse(&b) {
                None => "~".into(),
                Some(t) => format!("{}:{}", hex(t.class().as_bytes()), ohex(t.message())),
            }))
        }
        "A" => or_panic(guarded(|| run_trace_ast(&toks[1..]))),
        "HT" | "HL" | "HU" | "HC" | "HP" | "HN" | "HB" | "HE" | "HD" | "HW" => or_panic(guarded(|| run_std_op(&toks))),
        "E6" | "E5" => or_panic(guarded(|| run_sweep_block(toks[0], toks[1].parse().expect("block")))),
        "E1" => or_panic(guarded(|| run_e1_block(toks[1].parse().expect("block")))),
        "" => String::new(),
        _ => format!("UNKNOWN-OP {}", toks[0]),
    }
}

/// the std / dependency semantics the model writes down by hand, run directly: str::trim, str::lines,
/// from_utf8, str::cmp, str::parse, char::is_numeric, slice::binary_search_by, leb128, StringTable
fn run_std_op(toks: &[&str]) -> String {
    let bytes = |i: usize| unhex(toks[i]);
    match toks[0] {
        "HU" => format!("{}", std::str::from_utf8(&bytes(1)).is_ok() as u8),
        "HT" => match std::str::from_utf8(&bytes(1)) {
            Ok(s) => hex(s.trim().as_bytes()),
            Err(_) => "~".into(),
        },
        "HL" => match std::str::from_utf8(&bytes(1)) {
            Ok(s) => s.lines().map(|l| hex(l.as_bytes())).collect::<Vec<_>>().join(","),
            Err(_) => "~".into(),
        },
        "HC" => {
            let (a, b) = (bytes(1), bytes(2));
            match (std::str::from_utf8(&a), std::str::from_utf8(&b)) {
                (Ok(x), Ok(y)) => format!("{:?}", x.cmp(y)),
                _ => format!("{:?}", a.cmp(&b)),
            }
        }
        "HP" => match std::str::from_utf8(&bytes(1)) {
            Ok(s) => format!(
                "{};{}",
                s.parse::<usize>().map_or("~".into(), |v| v.to_string()),
                s.parse::<u32>().map_or("~".into(), |v| v.to_string())
            ),
            Err(_) => "~;~".into(),
        },
        "HN" => bytes(1).iter().map(|b| if (*b as char).is_numeric() { '1' } else { '0' }).collect(),
        "HB" => {
            // binary_search_by over a byte list (possibly unsorted) with comparator x.cmp(target)
            let target = bytes(1).first().copied().unwrap_or(0);
            let l = bytes(2);
            match l.binary_search_by(|x| x.cmp(&target)) {
                Ok(i) => format!("Some({})", i),
                Err(_) => "None".into(),
            }
        }
        "HE" => {
            let v: u64 = toks[1].parse().expect("u64");
            let mut out = Vec::new();
            leb128::write::unsigned(&mut out, v).expect("leb");
            hex(&out)
        }
        "HD" => {
            let b = bytes(1);
            let mut r: &[u8] = &b;
            match leb128::read::unsigned(&mut r) {
                Ok(v) => format!("{};{}", v, hex(r)),
                Err(_) => "~".into(),
            }
        }
        "HW" => {
            // watto::StringTable: insert the strings, then read every returned offset back
            let mut t = watto::StringTable::new();
            let mut offs = Vec::new();
            for tok in &toks[1..] {
                let b = unhex(tok);
                let s = String::from_utf8_lossy(&b).to_string();
                offs.push(t.insert(&s));
            }
            let bytes = t.into_bytes();
            let reads: Vec<String> = offs
                .iter()
                .map(|o| match watto::StringTable::read(&bytes, *o) {
                    Ok(s) => hex(s.as_bytes()),
                    Err(_) => "~".into(),
                })
                .collect();
            format!("{};{};{}", offs.iter().map(|o| o.to_string()).collect::<Vec<_>>().join(","), hex(&bytes), reads.join(","))
        }
        _ => "UNKNOWN-OP".into(),
    }
}

pub const SWEEP_BLOCK: u64 = 4096;
pub const ALPHA6: &[&[u8]] = &[b"a", b" ", b"-", b">", b":", b"#", b"\n", b"\r", b"1"];
pub const ALPHA5: &[&[u8]] = &[b"    ", b"a", b"b.c", b" ", b" -> ", b":", b"(", b")", b"1", b"#", b"x:", b"\n"];
pub fn sweep_total(k: u64, maxlen: u32) -> u64 {
    (0..=maxlen).map(|l| k.pow(l)).sum()
}
/// the idx-th string in length-then-lexicographic order over the token alphabet
pub fn sweep_string(alpha: &[&[u8]], maxlen: u32, mut idx: u64) -> Option<Vec<u8>> {
    let k = alpha.len() as u64;
    let mut len = 0u32;
    loop {
        if len > maxlen {
            return None;
        }
        let n = k.pow(len);
        if idx < n {
            break;
        }
        idx -= n;
        len += 1;
    }
    let mut digits = vec![0usize; len as usize];
    for d in digits.iter_mut().rev() {
        *d = (idx % k) as usize;
        idx /= k;
    }
    let mut out = Vec::new();
    for d in digits {
        out.extend_from_slice(alpha[d]);
    }
    Some(out)
}
fn fnv(h: &mut u64, bytes: &[u8]) {
    for b in bytes {
        *h ^= *b as u64;
        *h = h.wrapping_mul(0x100000001b3);
    }
}
/// E1: every mapping of at most 5 lines over a 13-line alphabet (classes with a repeated obfuscated name,
/// an inline pair, overlapping / range-less / inverted / foreign-class entries, a field, a sourceFile
/// header, a noise line), each with a fixed query universe, through mapper (with and without
/// parameter index) and cache.  One digest per block of 512 mappings.
pub const E1_BLOCK: u64 = 512;
pub const E1_MAXLEN: u32 = 5;
pub const ALPHA1: &[&[u8]] = &[
    b"a.A -> x:\n",
    b"b.B -> y:\n",
    b"a.C -> x:\n",
    b"    1:3:void m():10:12 -> f\n",
    b"    1:3:void n():20 -> f\n",
    b"    4:6:void m(int) -> f\n",
    b"    void p(int) -> f\n",
    b"    2:5:void q.Q.r():7:7 -> g\n",
    b"    int fld -> f\n",
    b"# {\"id\":\"sourceFile\",\"fileName\":\"S.kt\"}\n",
    b"garbage\n",
    b"    5:4:void inv() -> g\n",
    b"    # {\"id\":\"x\"}\n",
];
pub fn e1_queries() -> Vec<String> {
    let h = |s: &str| hex(s.as_bytes());
    let mut q = Vec::new();
    for c in ["x", "y", "z"] {
        q.push(format!("K {}", h(c)));
    }
    for (c, m) in [("x", "f"), ("x", "g"), ("y", "f"), ("y", "g")] {
        q.push(format!("T {} {}", h(c), h(m)));
    }
    for l in 0..8 {
        q.push(format!("L {} {} {} ~", h("x"), h("f"), l));
    }
    for l in [0, 2, 4, 5, 6] {
        q.push(format!("L {} {} {} {}", h("x"), h("g"), l, h("F.java")));
    }
    for (c, m, l) in [("y", "f", 2), ("y", "g", 4), ("y", "f", 0), ("z", "f", 1)] {
        q.push(format!("L {} {} {} ~", h(c), h(m), l));
    }
    for (c, m, p) in [("x", "f", ""), ("x", "f", "int"), ("x", "g", ""), ("y", "f", "int"), ("y", "f", "")] {
        q.push(format!("P {} {} {}", h(c), h(m), h(p)));
    }
    q.push("W".into());
    q
}
/// the explicit cases of one block (used to locate the input when a digest differs)
pub fn e1_expand(block: u64) -> Vec<String> {
    let qs = e1_queries();
    let mut out = Vec::new();
    for idx in block * E1_BLOCK..(block + 1) * E1_BLOCK {
        let Some(m) = sweep_string(ALPHA1, E1_MAXLEN, idx) else { break };
        out.push(format!("M {}", hex(&m)));
        out.extend(qs.iter().cloned());
    }
    out
}
fn run_e1_block(block: u64) -> String {
    let qs = e1_queries();
    let qrefs: Vec<&str> = qs.iter().map(|s| s.as_str()).collect();
    let mut h: u64 = 0xcbf29ce484222325;
    let mut n = 0;
    let mut answers = Vec::new();
    for idx in block * E1_BLOCK..(block + 1) * E1_BLOCK {
        let Some(m) = sweep_string(ALPHA1, E1_MAXLEN, idx) else { break };
        answers.clear();
        let ob = OffsetBuf::new(&m, idx as usize);
        run_mapping_ops(ob.bytes(), &qrefs, &mut answers);
        for a in &answers {
            // all layers of the implementation must agree; the common answer is digested
            let vals: Vec<&str> = a.split(';').filter_map(|p| p.split_once('=')).map(|(_, v)| v).collect();
            let canon = if a.starts_with("w=") {
                if a.ends_with(";test=ok;al=1") { vals[0].to_string() } else { format!("!{}", a) }
            } else if !vals.is_empty() && vals.iter().all(|v| *v == vals[0]) {
                vals[0].to_string()
            } else {
                format!("!{}", a)
            };
            fnv(&mut h, canon.as_bytes());
            fnv(&mut h, b"\n");
        }
        n += 1;
    }
    format!("dg={:016x};n={}", h, n)
}

/// bounded-exhaustive sweeps: one digest per block of 4096 inputs
fn run_sweep_block(kind: &str, block: u64) -> String {
    let (alpha, maxlen) = if kind == "E6" { (ALPHA6, 7) } else { (ALPHA5, 6) };
    let mut h: u64 = 0xcbf29ce484222325;
    let mut n = 0;
    for idx in block * SWEEP_BLOCK..(block + 1) * SWEEP_BLOCK {
        let Some(s) = sweep_string(alpha, maxlen, idx) else { break };
        let line = if kind == "E6" {
            let v: Vec<String> = ProguardMapping::new(&s).iter().map(|it| show_item(&it)).collect();
            v.join(";")
        } else {
            show_item(&ProguardRecord::try_parse(&s))
        };
        fnv(&mut h, line.as_bytes());
        fnv(&mut h, b"\n");
        n += 1;
    }
    format!("dg={:016x};n={}", h, n)
}

/// builds a StackTrace from the AST tokens through the public constructors, prints it,
/// parses the text back and prints again
fn run_trace_ast(toks: &[&str]) -> String {
    // owned strings first, then borrow
    #[derive(Default)]
    struct Node {
        exc: Option<(String, Option<String>)>,
        frames: Vec<(String, String, String, usize)>,
    }
    let mut nodes = vec![Node::default()];
    for t in toks {
        if *t == "c" {
            nodes.push(Node::default());
            continue;
        }
        let f: Vec<&str> = t.split(':').collect();
        let s = |x: &str| String::from_utf8(unhex(x)).expect("utf8");
        let cur = nodes.last_mut().unwrap();
        match f[0] {
            "e" => cur.exc = Some((s(f[1]), if f[2] == "~" { None } else { Some(s(f[2])) })),
            "f" => cur.frames.push((s(f[1]), s(f[2]), s(f[3]), f[4].parse().expect("line"))),
            _ => return format!("BAD-TOKEN {}", t),
        }
    }
    fn build<'a>(nodes: &'a [NodeRef<'a>]) -> StackTrace<'a> {
        let n = &nodes[0];
        let exc = n.exc.as_ref().map(|(c, m)| match m {
            Some(m) => Throwable::with_message(c, m),
            None => Throwable::new(c),
        });
        let frames: Vec<StackFrame> = n.frames.iter().map(|(c, m, f, l)| StackFrame::with_file(c, m, *l, f)).collect();
        if nodes.len() > 1 {
            StackTrace::with_cause(exc, frames, build(&nodes[1..]))
        } else {
            StackTrace::new(exc, frames)
        }
    }
    type NodeRef<'a> = NodeB<'a>;
    struct NodeB<'a> {
        exc: Option<(&'a str, Option<&'a str>)>,
        frames: Vec<(&'a str, &'a str, &'a str, usize)>,
    }
    let borrowed: Vec<NodeB> = nodes
        .iter()
        .map(|n| NodeB {
            exc: n.exc.as_ref().map(|(c, m)| (c.as_str(), m.as_deref())),
            frames: n.frames.iter().map(|(c, m, f, l)| (c.as_str(), m.as_str(), f.as_str(), *l)).collect(),
        })
        .collect();
    let t = build(&borrowed);
    let text = t.to_string();
    let back = StackTrace::try_parse(text.as_bytes());
    let rt = back.as_ref() == Some(&t);
    let rp = back.as_ref().map_or(false, |b| b.to_string() == text);
    format!("p={};rt={};rp={}", hex(text.as_bytes()), rt as u8, rp as u8)
}

/// YA: a typed trace built through the public constructors — frames by line (`f:class:method:file|~:line`)
/// and by parameters (`p:class:method:params`), throwables (`e:class:msg|~`), `c` starts a cause — remapped
/// by mapper (both index modes) and cache.  The property's own node-wise clause is evaluated on the
/// implementation: every level keeps its position, its throwable is remap_throwable's answer or itself, its
/// frames are the concatenation of remap_frame's answers (or the frame itself when there is none).
fn run_typed_ast(ctx: &Ctx, toks: &[&str]) -> String {
    #[derive(Default)]
    struct Node {
        exc: Option<(String, Option<String>)>,
        frames: Vec<(String, String, Option<String>, usize, Option<String>)>,
    }
    let s = |x: &str| String::from_utf8(unhex(x)).expect("utf8");
    let mut nodes = vec![Node::default()];
    for t in toks {
        if *t == "c" {
            nodes.push(Node::default());
            continue;
        }
        let f: Vec<&str> = t.split(':').collect();
        let cur = nodes.last_mut().unwrap();
        match f[0] {
            "e" => cur.exc = Some((s(f[1]), if f[2] == "~" { None } else { Some(s(f[2])) })),
            "f" => cur.frames.push((s(f[1]), s(f[2]), if f[3] == "~" { None } else { Some(s(f[3])) }, f[4].parse().expect("line"), None)),
            "p" => cur.frames.push((s(f[1]), s(f[2]), None, 0, Some(s(f[3])))),
            _ => return format!("BAD-TOKEN {}", t),
        }
    }
    fn frame_of<'a>(f: &'a (String, String, Option<String>, usize, Option<String>)) -> StackFrame<'a> {
        match (&f.4, &f.2) {
            (Some(p), _) => StackFrame::with_parameters(&f.0, &f.1, p),
            (None, Some(file)) => StackFrame::with_file(&f.0, &f.1, f.3, file),
            (None, None) => StackFrame::new(&f.0, &f.1, f.3),
        }
    }
    fn build<'a>(nodes: &'a [Node]) -> StackTrace<'a> {
        let n = &nodes[0];
        let exc = n.exc.as_ref().map(|(c, m)| match m {
            Some(m) => Throwable::with_message(c, m),
            None => Throwable::new(c),
        });
        let frames: Vec<StackFrame> = n.frames.iter().map(frame_of).collect();
        if nodes.len() > 1 {
            StackTrace::with_cause(exc, frames, build(&nodes[1..]))
        } else {
            StackTrace::new(exc, frames)
        }
    }
    let tr = build(&nodes);
    fn show_level(e: Option<&Throwable>, fs: &[StackFrame]) -> String {
        format!(
            "{}|{}",
            e.map_or("~".to_string(), |t| hex(t.to_string().as_bytes())),
            fs.iter()
                .map(|f| format!("{}:{}:{}:{}:{}", hex(f.class().as_bytes()), hex(f.method().as_bytes()), ohex(f.file()), f.line(), ohex(f.parameters())))
                .collect::<Vec<_>>()
                .join(",")
        )
    }
    fn levels(t: &StackTrace) -> Vec<String> {
        let mut v = Vec::new();
        let mut cur = Some(t);
        while let Some(x) = cur {
            v.push(show_level(x.exception(), x.frames()));
            cur = x.cause();
        }
        v
    }
    // expected, node by node, from the single-element API of the same object
    let expect = |rt: &dyn Fn(&Throwable) -> Option<String>, rf: &dyn Fn(&StackFrame) -> Vec<String>| -> Vec<String> {
        let mut v = Vec::new();
        let mut cur = Some(&tr);
        while let Some(x) = cur {
            let e = x.exception().map_or("~".to_string(), |t| rt(t).unwrap_or_else(|| hex(t.to_string().as_bytes())));
            let mut fs = Vec::new();
            for f in x.frames() {
                let r = rf(f);
                if r.is_empty() {
                    fs.push(format!("{}:{}:{}:{}:{}", hex(f.class().as_bytes()), hex(f.method().as_bytes()), ohex(f.file()), f.line(), ohex(f.parameters())));
                } else {
                    fs.extend(r);
                }
            }
            v.push(format!("{}|{}", e, fs.join(",")));
            cur = x.cause();
        }
        v
    };
    let fshow = |f: StackFrame| format!("{}:{}:{}:{}:{}", hex(f.class().as_bytes()), hex(f.method().as_bytes()), ohex(f.file()), f.line(), ohex(f.parameters()));
    let mut verdicts = Vec::new();
    let mut results = Vec::new();
    for (name, m) in [("m", &ctx.mapper), ("n", &ctx.mapper0)] {
        if let Some(m) = m {
            let got = levels(&m.remap_stacktrace_typed(&tr));
            let want = expect(&|t| m.remap_throwable(t).map(|x| hex(x.to_string().as_bytes())), &|f| m.remap_frame(f).map(fshow).collect());
            verdicts.push(format!("{}={}", name, (got == want) as u8));
            if name == "m" {
                results.push(got);
            }
        }
    }
    if let Some(c) = &ctx.cache {
        let got = levels(&c.remap_stacktrace_typed(&tr));
        let want = expect(&|t| c.remap_throwable(t).map(|x| hex(x.to_string().as_bytes())), &|f| c.remap_frame(f).map(fshow).collect());
        verdicts.push(format!("c={}", (got == want) as u8));
        results.push(got);
    }
    let same = results.windows(2).all(|w| w[0] == w[1]);
    format!("{};mc={};d={}", verdicts.join(";"), same as u8, depth(&tr))
}

#[derive(Clone, Copy)]
enum Resp {
    Short(usize),
    Interrupted,
    Fail,
}
/// a sink obeying the I/O contract: at most `max` bytes per call (0 = unlimited), scripted calls
struct ScriptSink {
    max: usize,
    script: Vec<(usize, Resp)>,
    calls: usize,
    accepted: Vec<u8>,
}
/// the same sink, additionally offering a gathering `write_vectored` (like files and sockets do): one call,
/// one scripted response, bytes taken across the buffers in order
struct GatherSink(ScriptSink);
impl std::io::Write for GatherSink {
    fn write(&mut self, buf: &[u8]) -> std::io::Result<usize> {
        self.0.write(buf)
    }
    fn write_vectored(&mut self, bufs: &[std::io::IoSlice<'_>]) -> std::io::Result<usize> {
        let all: Vec<u8> = bufs.iter().flat_map(|b| b.iter().copied()).collect();
        self.0.write(&all)
    }
    fn flush(&mut self) -> std::io::Result<()> {
        Ok(())
    }
}
impl std::io::Write for ScriptSink {
    fn write(&mut self, buf: &[u8]) -> std::io::Result<usize> {
        let i = self.calls;
        self.calls += 1;
        let r = self.script.iter().find(|(j, _)| *j == i).map(|(_, r)| *r);
        let n = match r {
            Some(Resp::Interrupted) => return Err(std::io::Error::from(std::io::ErrorKind::Interrupted)),
            Some(Resp::Fail) => return Err(std::io::Error::new(std::io::ErrorKind::Other, "scripted failure")),
            Some(Resp::Short(k)) => k.min(buf.len()),
            None => {
                if self.max == 0 {
                    buf.len()
                } else {
                    self.max.min(buf.len())
                }
            }
        };
        self.accepted.extend_from_slice(&buf[..n]);
        Ok(n)
    }
    fn flush(&mut self) -> std::io::Result<()> {
        Ok(())
    }
}

fn run_sink_op(mapping: &[u8], toks: &[&str]) -> String {
    let max: usize = toks[0].strip_prefix("max=").expect("max=").parse().expect("max");
    let gather = toks[1..].contains(&"vec");
    let mut script = Vec::new();
    for t in toks[1..].iter().filter(|t| **t != "vec") {
        let (i, r) = t.split_once(':').expect("idx:resp");
        let i: usize = i.parse().expect("idx");
        let r = match r {
            "I" => Resp::Interrupted,
            "F" => Resp::Fail,
            s => Resp::Short(s[1..].parse().expect("short")),
        };
        script.push((i, r));
    }
    let pm = ProguardMapping::new(mapping);
    let mut canon = Vec::new();
    ProguardCache::write(&pm, &mut canon).expect("vec write");
    let mut sink = ScriptSink { max, script, calls: 0, accepted: Vec::new() };
    let res = if gather {
        let mut g = GatherSink(sink);
        let r = ProguardCache::write(&pm, &mut g);
        sink = g.0;
        r
    } else {
        ProguardCache::write(&pm, &mut sink)
    };
    let r = match &res {
        Ok(()) => "ok",
        Err(e) if e.kind() == std::io::ErrorKind::WriteZero => "zero",
        Err(_) => "fail",
    };
    format!(
        "r={};n={};calls={};pfx={};full={};h={}",
        r,
        sink.accepted.len(),
        sink.calls,
        canon.starts_with(&sink.accepted) as u8,
        (canon == sink.accepted) as u8,
        hex(&sink.accepted)
    )
}

fn is_group_op(l: &str) -> bool {
    matches!(l.split(' ').next().unwrap_or(""), "I" | "D" | "K" | "T" | "L" | "P" | "KI" | "TI" | "LI" | "PI" | "S" | "Y" | "YA" | "G" | "W" | "U" | "Z" | "ZI" | "DOM" | "US" | "SEC")
}
fn is_x_op(l: &str) -> bool {
    matches!(l.split(' ').next().unwrap_or(""), "k" | "t" | "l" | "p" | "s" | "g")
}

pub fn run_cases(input: &str) -> Vec<String> {
    let lines: Vec<&str> = input.lines().collect();
    let mut out = Vec::with_capacity(lines.len());
    let mut i = 0;
    // every mapping is placed at a different address modulo 8 (the model knows no addresses)
    let mut cur = OffsetBuf::new(&[], 0);
    let mut nmappings = 0usize;
    while i < lines.len() {
        let l = lines[i];
        if let Some(h) = l.strip_prefix("M ") {
            cur = OffsetBuf::new(&unhex(h.split(' ').next().unwrap_or("x")), nmappings);
            nmappings += 1;
            out.push("M".to_string());
            i += 1;
        } else if is_group_op(l) {
            let mut j = i;
            while j < lines.len() && is_group_op(lines[j]) {
                j += 1;
            }
            run_mapping_ops(cur.bytes(), &lines[i..j], &mut out);
            i = j;
        } else if let Some(h) = l.strip_prefix("X ") {
            let buf = unhex(h.split(' ').next().unwrap_or("x"));
            let mut j = i + 1;
            while j < lines.len() && is_x_op(lines[j]) {
                j += 1;
            }
            run_x_ops(&buf, &lines[i + 1..j], &mut out);
            i = j;
        } else {
            out.push(run_free_op(l));
            i += 1;
        }
    }
    out
}
