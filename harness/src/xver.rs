//! Cross-release runner for property C10: the vendored pinned release (proguard_pinned) and the
//! current tree (proguard), each writing cache files that both readers answer.
use crate::util::*;

macro_rules! release {
    ($modname:ident, $krate:ident) => {
        pub mod $modname {
            use crate::util::*;
            use $krate::*;

            pub fn write(mapping: &[u8]) -> Option<Vec<u8>> {
                guarded(|| {
                    let mut buf = Vec::new();
                    ProguardCache::write(&ProguardMapping::new(mapping), &mut buf).ok().map(|_| buf)
                })
                .flatten()
            }

            pub fn accepts(buf: &[u8]) -> bool {
                matches!(guarded(|| ProguardCache::parse(buf).is_ok()), Some(true))
            }

            fn show_frames<'a>(it: impl Iterator<Item = StackFrame<'a>>) -> String {
                let v: Vec<String> = it
                    .map(|f| {
                        format!(
                            "{}:{}:{}:{}:{}",
                            hex(f.class().as_bytes()),
                            hex(f.method().as_bytes()),
                            ohex(f.file()),
                            f.line(),
                            ohex(f.parameters())
                        )
                    })
                    .collect();
                format!("[{}]", v.join(","))
            }

            /// The typed answer in the layout of `Display`, with one normalisation applied to BOTH releases:
            /// a level whose throwable is missing from the result shows the throwable of the input at that
            /// level.  The pinned release has the defect F3 (typed remapping drops a throwable whose class
            /// is not in the mapping; repaired in the current tree by a9ed7b0), which changes typed answers
            /// in the same way for every file, whatever its bytes.  Everything read from the file (mapped
            /// throwables, frames, their order, the depth of the chain) is compared as it is.
            fn typed_modulo_f3(input: &StackTrace<'_>, result: &StackTrace<'_>) -> String {
                use std::fmt::Write;
                let mut s = String::new();
                let (mut res, mut inp) = (Some(result), Some(input));
                while let Some(t) = res {
                    match t.exception().or_else(|| inp.and_then(|i| i.exception())) {
                        Some(e) => writeln!(s, "{}", e).unwrap(),
                        None => {}
                    }
                    for f in t.frames() {
                        writeln!(s, "    {}", f).unwrap();
                    }
                    res = t.cause();
                    inp = inp.and_then(|i| i.cause());
                    if res.is_some() {
                        s.push_str("Caused by: ");
                    }
                }
                if inp.is_some() {
                    s.push_str("<<cause chain of the input is longer than the result's>>\n");
                }
                s
            }

            /// answers the uppercase query ops against a cache file
            pub fn answer(file: &AlignedBuf, toks: &[&str]) -> String {
                let parsed = guarded(|| ProguardCache::parse(file.bytes()));
                let cache = match parsed {
                    None => return "PANIC".into(),
                    Some(Err(e)) => {
                        return match e.kind() {
                            CacheErrorKind::WrongVersion => "WrongVersion".into(),
                            k => format!("ERR:{:?}", k),
                        }
                    }
                    Some(Ok(c)) => c,
                };
                let strs: Vec<String> = toks[1..]
                    .iter()
                    .map(|t| if t.starts_with('x') { String::from_utf8_lossy(&unhex(t)).to_string() } else { t.to_string() })
                    .collect();
                let r = guarded(|| match toks[0] {
                    "K" => ohex(cache.remap_class(&strs[0])),
                    "T" => match cache.remap_method(&strs[0], &strs[1]) {
                        None => "~".into(),
                        Some((a, b)) => format!("{}:{}", hex(a.as_bytes()), hex(b.as_bytes())),
                    },
                    "L" => {
                        let line: usize = strs[2].parse().expect("line");
                        let f = if toks[4] == "~" {
                            StackFrame::new(&strs[0], &strs[1], line)
                        } else {
                            StackFrame::with_file(&strs[0], &strs[1], line, &strs[3])
                        };
                        show_frames(cache.remap_frame(&f))
                    }
                    "P" => show_frames(cache.remap_frame(&StackFrame::with_parameters(&strs[0], &strs[1], &strs[2]))),
                    "S" => match cache.remap_stacktrace(&strs[0]) {
                        Ok(s) => hex(s.as_bytes()),
                        Err(_) => "FMTERR".into(),
                    },
                    "Y" => match StackTrace::try_parse(strs[0].as_bytes()) {
                        None => "none".into(),
                        Some(t) => hex(typed_modulo_f3(&t, &cache.remap_stacktrace_typed(&t)).as_bytes()),
                    },
                    "G" => match cache.deobfuscate_signature(&strs[0]) {
                        None => "~".into(),
                        Some(s) => hex(s.format_signature().as_bytes()),
                    },
                    "W" => {
                        guarded(|| cache.test()).map_or("test=PANIC".to_string(), |_| "test=ok".to_string())
                    }
                    _ => "UNKNOWN-OP".into(),
                });
                r.unwrap_or_else(|| "PANIC".into())
            }
        }
    };
}

release!(pinned, proguard_pinned);
release!(current, proguard);

pub fn run_cases(input: &str) -> Vec<String> {
    let lines: Vec<&str> = input.lines().collect();
    let mut out = Vec::with_capacity(lines.len());
    let mut files: Option<(Option<AlignedBuf>, Option<AlignedBuf>, bool)> = None;
    for l in lines {
        if let Some(h) = l.strip_prefix("M ") {
            let m = unhex(h.split(' ').next().unwrap_or("x"));
            let wp = pinned::write(&m);
            let wc = current::write(&m);
            let same = wp == wc;
            files = Some((wp.map(|b| AlignedBuf::new(&b)), wc.map(|b| AlignedBuf::new(&b)), same));
            out.push("M".to_string());
            continue;
        }
        let toks: Vec<&str> = l.split(' ').filter(|t| !t.starts_with('=')).collect();
        match &files {
            Some((Some(fp), Some(fc), same)) => {
                // first letter: writer, second letter: reader
                let mut ans = format!(
                    "pp={};pc={};cp={};cc={};samebytes={}",
                    pinned::answer(fp, &toks),
                    current::answer(fp, &toks),
                    pinned::answer(fc, &toks),
                    current::answer(fc, &toks),
                    *same as u8
                );
                if toks[0] == "W" {
                    // the same file at the eight addresses modulo 8: each reader's accept / reject pattern
                    let mask = |bytes: &[u8], pinned_reader: bool| -> String {
                        (0..8)
                            .map(|k| {
                                let ob = OffsetBuf::new(bytes, k);
                                let ok = if pinned_reader { pinned::accepts(ob.bytes()) } else { current::accepts(ob.bytes()) };
                                if ok { '1' } else { '0' }
                            })
                            .collect()
                    };
                    ans.push_str(&format!(";app={};apc={};acp={};acc={}", mask(fp.bytes(), true), mask(fp.bytes(), false), mask(fc.bytes(), true), mask(fc.bytes(), false)));
                    // the written bytes themselves, for the comparison with the models of both writers
                    ans.push_str(&format!(";wp={};wc={}", hex(fp.bytes()), hex(fc.bytes())));
                }
                out.push(ans);
            }
            _ => out.push("WRITE-FAILED".to_string()),
        }
    }
    out
}
