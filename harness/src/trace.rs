//! Generators for stack trace texts, canonical traces and JVM signatures.
use crate::gen::*;
use crate::util::*;

fn class_name(r: &mut Rng, u: &Universe) -> String {
    if !u.classes.is_empty() && r.chance(3, 5) {
        r.pick(&u.classes).clone()
    } else {
        r.pick(&["java.lang.RuntimeException", "x.Unknown", "a", "é.x", "com.example.Foo$1", "zz"]).to_string()
    }
}
fn class_method(r: &mut Rng, u: &Universe) -> (String, String) {
    if !u.methods.is_empty() && r.chance(3, 5) {
        r.pick(&u.methods).clone()
    } else {
        (class_name(r, u), r.pick(&["m", "<init>", "run", "é", "a"]).to_string())
    }
}
fn line_no(r: &mut Rng, u: &Universe) -> String {
    match r.below(12) {
        0 => "0".into(),
        1 => "18446744073709551615".into(),
        2 => "18446744073709551616".into(),
        3 => "+3".into(),
        4 => "-1".into(),
        5 => "".into(),
        6 | 7 if !u.numbers.is_empty() => r.pick(&u.numbers).to_string(),
        _ => r.below(40).to_string(),
    }
}
const MESSAGES: &[&str] = &[
    "boom", "Crash: again", "Caused by: inner", "at x.y(z:1)", "with  spaces", "é ü", "a: b: c", "(", ")", ":",
    "msg\u{a0}", "\u{2003}m", "😀 boom", "a\u{2028}b", "x\u{85}",
];

/// arbitrary trace-like text (C07)
pub fn gen_text(r: &mut Rng, u: &Universe) -> String {
    let nl = *r.pick(&["\n", "\n", "\r\n"]);
    let mut s = String::new();
    let n = r.below(9);
    for i in 0..n {
        let line = match r.below(16) {
            0 | 1 => {
                let c = class_name(r, u);
                if r.chance(1, 2) {
                    format!("{}: {}", c, r.pick(MESSAGES))
                } else {
                    c
                }
            }
            2 | 3 | 4 | 5 => {
                let (c, m) = class_method(r, u);
                let ind = *r.pick(&["    ", "\t", "  ", "", "\u{a0}", " \t "]);
                let c = if r.chance(1, 20) { format!("{}{}", r.pick(&["app//", "java.base/", "app/mod@1.0/"]), c) } else { c };
                format!("{}at {}.{}({}:{})", ind, c, m, r.pick(&["SourceFile", "Foo.java", "", "a:b", "Worker (1).java", "W(gen).kt", "R8$$SyntheticClass"]), line_no(r, u))
            }
            6 | 7 => {
                let c = class_name(r, u);
                // other spellings of the marker are plain text
                let marker = if r.chance(1, 8) { *r.pick(&["Caused By: ", "caused by: ", "CAUSED BY: ", "Caused by:", " Caused by: ", "Caused  by: "]) } else { "Caused by: " };
                if r.chance(1, 2) {
                    format!("{}{}: {}", marker, c, r.pick(MESSAGES))
                } else {
                    format!("{}{}", marker, c)
                }
            }
            8 => format!("    ... {} more", r.below(20)),
            9 => {
                let (c, m) = class_method(r, u);
                format!("    at {}.{}({})", c, m, r.pick(&["Native Method", "Unknown Source"]))
            }
            10 => String::new(),
            11 => r.pick(&["Caused by: two words", "Caused by: ", "at ", "at )", "at a(", "at a.b()", "at a.b(:)", "at .(:1)", "   at a.b(c:1) ", "Caused by: at a.b(c:1)", "\u{2028}", "x\ry"]).to_string(),
            12 => format!("{}: {}", class_name(r, u), "at a.b(c:1)"),
            13 => {
                let (c, m) = class_method(r, u);
                format!("at {}.{}(F:{})", c, m, line_no(r, u))
            }
            _ => r.pick(MESSAGES).to_string(),
        };
        s.push_str(&line);
        if i + 1 < n || r.chance(3, 4) {
            s.push_str(nl);
        }
        // the same frame again, spelled differently (indentation, trailing blanks, +n / 0n line numbers)
        if line.contains("at ") && line.ends_with(')') && r.chance(1, 4) && s.ends_with(nl) {
            let t = line.trim();
            let respelled = match r.below(4) {
                0 => format!("\t{}", t),
                1 => format!("  {}  ", t),
                2 => match t.rsplit_once(':') {
                    Some((a, b)) if b.len() > 1 && b.as_bytes()[0].is_ascii_digit() => format!("    {}:0{}", a, b),
                    _ => format!(" {}", t),
                },
                _ => match t.rsplit_once(':') {
                    Some((a, b)) if b.len() > 1 && b.as_bytes()[0].is_ascii_digit() => format!("    {}:+{}", a, b),
                    _ => t.to_string(),
                },
            };
            s.push_str(&respelled);
            s.push_str(nl);
        }
    }
    s
}

/// identifier alphabets of C08/C17: no whitespace, parentheses or colon; non-empty
fn is_ident(s: &str) -> bool {
    !s.is_empty() && !s.chars().any(|c| c.is_whitespace() || c == '(' || c == ')' || c == ':')
}
fn canon_class(r: &mut Rng, u: &Universe) -> String {
    let c = class_name(r, u);
    if is_ident(&c) {
        // Java 9+ module / loader prefixes are part of the class name
        if r.chance(1, 25) {
            return format!("{}{}", r.pick(&["app//", "java.base/", "m@1/"]), c);
        }
        c
    } else {
        "x.Unknown".to_string()
    }
}
fn canon_class_method(r: &mut Rng, u: &Universe) -> (String, String) {
    let (c, m) = class_method(r, u);
    if is_ident(&c) && is_ident(&m) {
        (c, m)
    } else {
        ("x.Unknown".to_string(), "m".to_string())
    }
}

fn ident(r: &mut Rng) -> String {
    r.pick(&["m", "<init>", "run", "é", "a$1", "lambda$x$0", "access$100"]).to_string()
}

/// a trace in canonical printed form (C08/C17): throwables, frames with file, cause chain
pub fn gen_canonical_trace(r: &mut Rng, u: &Universe) -> String {
    let depth = r.below(5);
    let mut s = String::new();
    for d in 0..=depth {
        let has_exc = d > 0 || r.chance(4, 5);
        let cap = if r.chance(1, 10) { 21 } else { 5 };
        let long_level = r.chance(1, 25);
        let nframes = if long_level { 33 + r.below(50) } else if d == 0 && !has_exc { 1 + r.below(4) } else { r.below(cap) };
        let mut sites: Vec<(String, String, String)> = Vec::new();
        if d > 0 {
            s.push_str("Caused by: ");
        }
        if has_exc {
            s.push_str(&canon_class(r, u));
            if r.chance(1, 2) {
                s.push_str(": ");
                s.push_str(*r.pick(&["boom", "Crash: again", "Caused by: inner", "at x.y(z:1)", "a: b", "é"]));
            }
            s.push('\n');
        }
        for _ in 0..nframes {
            let (c, m) = if r.chance(1, 4) { (canon_class(r, u), ident(r)) } else { canon_class_method(r, u) };
            let m = m.replace('.', "_");
            let line = match r.below(9) {
                0 => "0".to_string(),
                1 => "18446744073709551615".to_string(),
                8 => format!("1{:018}{}", r.next() % 1_000_000_000_000_000_000u64, r.below(10)),
                2 | 3 if !u.numbers.is_empty() => r.pick(&u.numbers).to_string(),
                _ => r.below(40).to_string(),
            };
            // in long levels call sites repeat, with the same or another file
            let (c, m, line) = if long_level && !sites.is_empty() && r.chance(1, 2) { r.pick(&sites).clone() } else { (c, m, line) };
            sites.push((c.clone(), m.clone(), line.clone()));
            s.push_str(&format!("    at {}.{}({}:{})\n", c, m, r.pick(&["SourceFile", "Foo.java", "<unknown>", "é.kt"]), line));
        }
    }
    s
}

const OBJ: &[&str] = &["java/lang/String", "I", "Lib", "x/Long", "é/x", "a", "a/b", "L", "V"];

fn gen_type(r: &mut Rng, u: &Universe, depth: usize) -> String {
    match r.below(if depth > 2 { 4 } else { 6 }) {
        0 | 1 => r.pick(&["Z", "B", "C", "S", "I", "J", "F", "D"]).to_string(),
        2 | 3 => {
            let name = if !u.classes.is_empty() && r.chance(1, 2) {
                r.pick(&u.classes).replace('.', "/")
            } else {
                r.pick(OBJ).to_string()
            };
            format!("L{};", name)
        }
        _ => format!("[{}", gen_type(r, u, depth + 1)),
    }
}

/// JVM method descriptors: valid ones and corruptions (C16)
pub fn gen_signature(r: &mut Rng, u: &Universe) -> String {
    match r.below(40) {
        0 => {
            // very many parameters (JVM limit is 255 slots), long/double arrays included
            let k = *r.pick(&[127usize, 128, 129, 200, 255, 256]);
            let t = *r.pick(&["[J", "[[D", "J", "I", "[Lx/y;"]);
            return format!("({}){}", t.repeat(k), r.pick(&["V", "I", "[J"]));
        }
        1 => {
            // deeply nested arrays
            let k = *r.pick(&[8usize, 9, 10, 16, 17, 24, 40, 255, 256, 257, 300]);
            let el = *r.pick(&["I", "Lx/Long;", "J"]);
            return if r.chance(1, 2) { format!("({}{})V", "[".repeat(k), el) } else { format!("(I){}{}", "[".repeat(k), el) };
        }
        _ => {}
    }
    let n = r.below(7);
    let mut s = String::from("(");
    for _ in 0..n {
        s.push_str(&gen_type(r, u, 0));
    }
    s.push(')');
    s.push_str(&if r.chance(1, 3) { "V".to_string() } else { gen_type(r, u, 0) });
    match r.below(10) {
        0 => {
            // single-edit corruption
            let mut b: Vec<char> = s.chars().collect();
            if !b.is_empty() {
                let pos = r.below(b.len());
                match r.below(3) {
                    0 => {
                        b.remove(pos);
                    }
                    1 => b.insert(pos, *r.pick(&['(', ')', ';', 'L', '[', 'V', 'x', 'é', '/'])),
                    _ => b[pos] = *r.pick(&['(', ')', ';', 'L', '[', 'V', 'x', 'é', '/']),
                }
            }
            b.into_iter().collect()
        }
        1 => r.pick(&["", "(", ")", "()", "()V", "(L", "(La;", "(La;)", "(Lé", "(Lé)V", "(Iaé)V", "V", "(I)Lé;", "(I)L;", "(I)L", "([)V", "(é)é", "(I)[", "x(I)V"]).to_string(),
        _ => s,
    }
}

/// a typed trace as constructor tokens for the YA operation: frames by line and by parameters, with the
/// same call site repeated next to itself under other parameters / lines / files
pub fn gen_typed_ast(r: &mut Rng, u: &Universe) -> String {
    let hx = |s: &str| hex(s.as_bytes());
    let mut toks: Vec<String> = Vec::new();
    let levels = 1 + r.below(3);
    let mut args: Vec<String> = u.args.clone();
    args.push(String::new());
    args.push("no.such.Type".into());
    for d in 0..levels {
        if d > 0 {
            toks.push("c".into());
        }
        if r.chance(2, 3) {
            let c = class_name(r, u);
            let msg = if r.chance(1, 2) { hx(*r.pick(MESSAGES)) } else { "~".into() };
            toks.push(format!("e:{}:{}", hx(&c), msg));
        }
        // a small pool of call sites so that neighbours repeat
        let pool: Vec<(String, String)> = (0..1 + r.below(3)).map(|_| class_method(r, u)).collect();
        for _ in 0..r.below(8) {
            let (c, m) = r.pick(&pool).clone();
            if c.contains(':') || m.contains(':') {
                continue;
            }
            if r.chance(2, 5) {
                toks.push(format!("p:{}:{}:{}", hx(&c), hx(&m), hx(r.pick(&args).as_str())));
            } else {
                let line = match r.below(4) {
                    0 => 0,
                    1 if !u.numbers.is_empty() => *r.pick(&u.numbers),
                    _ => r.below(12),
                };
                let file = match r.below(4) {
                    0 => "~".to_string(),
                    1 => hx("R8$$SyntheticClass"),
                    _ => hx(*r.pick(&["SourceFile", "Foo.java"])),
                };
                toks.push(format!("f:{}:{}:{}:{}", hx(&c), hx(&m), file, line));
            }
        }
    }
    toks.join(" ")
}
