//! Case generators.  Every random choice derives from one PRNG state (seed).
use crate::util::*;
use proguard::*;
use std::collections::BTreeSet;

pub const CLS: &[&str] = &[
    "a", "a.b", "a$b", "ab", "a.b.c", "b", "é.x", "a.a", "a.b$c", "z.Y$1", "a.", "aa", "a.b.d", "A", "a.b$", "I", "Lib",
    "x.Long", "ü", "😀.x", "a\u{2028}b", "e\u{301}", "\u{ff21}", "\u{1d400}", "\u{e000}q", "\u{10000}q", "\u{ff21}\u{1d400}",
];
pub const ORIG: &[&str] = &[
    "com.A", "com.A$B", "org.x.Foo", "K", "com.é.Ü", "R8$$Synth", "p.q.Outer$Inner$1", "com.example.MainActivity",
    "kotlin.jvm.internal.Intrinsics", "com.example.gen$1.Lambda$Impl", "other.pkg$x.Helper", "a$b.C",
];
pub const METH: &[&str] = &["m", "n", "a", "<init>", "mm", "b", "é", "m$1", "m😀", "\u{ff22}", "\u{1d401}"];
pub const OMETH: &[&str] = &["foo", "bar", "baz", "<init>", "access$100", "lambda$x$0", "onCreate", "é", "f\u{85}g"];
pub const ARGS: &[&str] = &["", "int", "int,java.lang.String", "android.view.View", "java.lang.Object[]", "a.b"];
pub const FILES: &[&str] = &["Foo.kt", "R8$$SyntheticClass", "Bar.java", "x", "Ünï.kt", "F😀.kt"];
pub const TYPES: &[&str] = &["void", "int", "java.lang.String", "a.b[]", "boolean"];

#[derive(Clone, Copy, PartialEq)]
pub enum Dom {
    /// non-empty names and sourceFile values, numbers < 2^32-1
    Representable,
    /// additionally: numbers around 2^32 and 2^64, empty names, empty header values
    Wild,
}

fn long_name(r: &mut Rng) -> String {
    // > 127 bytes so that the string table's length prefix needs two bytes
    let mut s = String::from("long.");
    // lengths around the LEB128 prefix boundaries (total length = 5 + n): exact multiples of 128 included
    let n = *r.pick(&[122usize, 123, 124, 125, 130, 150, 170, 250, 251, 252, 379, 1019, 130, 140, 160]);
    let n = if r.chance(1, 2) { n } else { 130 + r.below(40) };
    for _ in 0..n {
        s.push((b'a' + r.below(26) as u8) as char);
    }
    s
}

fn pick_name(r: &mut Rng, pool: &[&str], dom: Dom) -> String {
    match r.below(40) {
        0 => long_name(r),
        3 => {
            // a very long identifier without dots (1 KiB and more)
            let n = *r.pick(&[511usize, 512, 513, 640, 1023, 1024, 1025, 1500]);
            "L".repeat(n)
        }
        1 if dom == Dom::Wild => String::new(),
        2 => {
            // random short identifier (no leading/trailing dot in the representable domain:
            // it would make an empty class or method name)
            let n = 1 + r.below(3);
            let s: String = (0..n).map(|_| *r.pick(&['a', 'b', '.', '$', 'c', 'é'])).collect();
            if dom == Dom::Representable {
                format!("a{}b", s)
            } else {
                s
            }
        }
        _ => r.pick(pool).to_string(),
    }
}

fn num(r: &mut Rng, dom: Dom) -> u128 {
    if dom == Dom::Wild && r.chance(1, 7) {
        // numbers around the 32 and 64 bit boundaries (narrowing in the cache writer, usize arithmetic)
        return *r.pick(&[
            (1u128 << 32) - 1,
            1u128 << 32,
            (1u128 << 32) + 5,
            2 * (1u128 << 32),
            1u128 << 63,
            (1u128 << 64) - 2,
            (1u128 << 64) - 1,
            1u128 << 64,
        ]);
    }
    match r.below(30) {
        0 => 65536 + r.below(10) as u128,
        1 => (1u128 << 31) + r.below(3) as u128,
        2 => (1u128 << 32) - 2,
        3 if dom == Dom::Wild => *r.pick(&[
            (1u128 << 32) - 1,
            1u128 << 32,
            (1u128 << 32) + 5,
            1u128 << 63,
            (1u128 << 64) - 1,
            1u128 << 64,
            (1u128 << 64) + 7,
        ]),
        _ => r.below(40) as u128,
    }
}

pub struct GenOpts {
    pub dom: Dom,
    pub max_classes: usize,
    pub noise: bool,
}

/// a mapping file from the ProGuard/R8 grammar
pub fn gen_mapping(r: &mut Rng, o: &GenOpts) -> String {
    let nl = *r.pick(&["\n", "\n", "\r\n", "\r"]);
    let mut s = String::new();
    if r.chance(1, 3) {
        s.push_str("# compiler: R8");
        s.push_str(nl);
        if r.chance(1, 2) {
            s.push_str("# compiler_version: 8.3.37");
            s.push_str(nl);
            s.push_str("# min_api: 24");
            s.push_str(nl);
        }
    }
    let ncls = match r.below(10) {
        0 => 0,
        1 => 1,
        _ => r.below(o.max_classes + 1),
    };
    // a small per-file pool so that names collide and repeat
    let pool_n = 2 + r.below(5);
    let cls_pool: Vec<String> = (0..pool_n).map(|_| pick_name(r, CLS, o.dom)).collect();
    for _ in 0..ncls {
        let obf = r.pick(&cls_pool).clone();
        let orig = pick_name(r, ORIG, o.dom);
        if o.noise && r.chance(1, 12) {
            source_file_header(r, &mut s, nl, o.dom);
        }
        s.push_str(&format!("{} -> {}:{}", orig, obf, nl));
        let nm = match r.below(8) {
            0 => 0,
            _ => r.below(8),
        };
        let mut i = 0;
        while i < nm {
            if r.chance(1, 5) {
                source_file_header(r, &mut s, nl, o.dom);
            }
            if r.chance(1, 8) {
                s.push_str(&format!("    {} fld{} -> f{}", r.pick(TYPES), r.below(3), nl));
            }
            if o.noise && r.chance(1, 10) {
                s.push_str(*r.pick(&["garbage line", "  two spaces", "# just a comment", "a -> b", "    void nope()", "\t", " ",
                    "  éa.B -> c:", "  xéa.B -> c:", "  ééa.B -> c:", "x é a.B -> c: extra", "    nope é x.Y -> z:", "  ü    void f() -> g", "  xyzü    1:2:void f() -> g",
                    "    # {\"id\":\"com.android.tools.r8.residualsignature\",\"signature\":\"()V\"}", "      # {\"id\":\"x\"}", "    # comment"]));
                s.push_str(nl);
            }
            if o.noise && r.chance(1, 10) {
                s.push_str(nl);
            }
            // a group of entries sharing the obfuscated range (inline group)
            let obf = pick_name(r, METH, o.dom);
            let a = num(r, o.dom);
            let clamp = |x: u128| if o.dom == Dom::Representable { x.min((1u128 << 32) - 2) } else { x };
            let b = clamp(match r.below(6) {
                0 => a,
                1 => a + r.below(5) as u128,
                2 => a.saturating_sub(1),
                3 => 0,
                4 => num(r, o.dom),
                _ => a + 3,
            });
            let grp = 1 + if r.chance(1, 3) { r.below(3) } else { 0 };
            let group_orig = pick_name(r, OMETH, o.dom);
            let group_args = r.pick(ARGS).to_string();
            for g in 0..grp {
                let lines = match r.below(5) {
                    0 if grp == 1 => String::new(),
                    _ => format!("{}:{}:", a, b),
                };
                let oc = if r.chance(1, 3) { format!("{}.", pick_name(r, ORIG, o.dom)) } else { String::new() };
                let ol = if lines.is_empty() {
                    String::new()
                } else {
                    match r.below(5) {
                        0 => String::new(),
                        1 => format!(":{}", num(r, o.dom)),
                        2 => {
                            let x = num(r, o.dom);
                            format!(":{}:{}", x, x)
                        }
                        3 => {
                            let x = num(r, o.dom);
                            format!(":{}:{}", x, clamp(x + r.below(6) as u128))
                        }
                        _ => format!(":{}:{}", num(r, o.dom), num(r, o.dom)),
                    }
                };
                // repeat an identical entry now and then (duplicates inside a class)
                let (orig, args) = if r.chance(1, 3) {
                    (group_orig.clone(), group_args.clone())
                } else {
                    (pick_name(r, OMETH, o.dom), r.pick(ARGS).to_string())
                };
                let tail = if o.dom == Dom::Wild && r.chance(1, 12) { *r.pick(&["\u{b}", "\u{c}", "\u{b}\u{c}", " "]) } else { "" };
                s.push_str(&format!("    {}{} {}{}({}){} -> {}{}{}", lines, r.pick(TYPES), oc, orig, args, ol, obf, tail, nl));
                i += 1;
                // noise between the entries of an inline group (R8 writes indented `# {..}` comments there)
                if o.noise && g + 1 < grp && r.chance(1, 5) {
                    s.push_str(*r.pick(&["    # {\"id\":\"com.android.tools.r8.residualsignature\",\"signature\":\"()V\"}", "      # {\"id\":\"x\"}", "garbage", "", "    # c"]));
                    s.push_str(nl);
                }
            }
        }
    }
    if r.chance(1, 6) && s.ends_with(nl) {
        // last line without terminator
        s.truncate(s.len() - nl.len());
        // ... whose last name ends in a character that str::trim would strip (it is part of the name)
        if r.chance(1, 3) && !s.is_empty() && !s.ends_with(':') {
            s.push(*r.pick(&['\u{2028}', '\u{85}', '\u{3000}', '\u{a0}']));
        }
    }
    if r.chance(1, 40) && !s.starts_with('#') && !s.is_empty() {
        // the first class name starts with such a character
        s.insert(0, *r.pick(&['\u{85}', '\u{2028}', '\u{feff}']));
    }
    s
}

fn source_file_header(r: &mut Rng, s: &mut String, nl: &str, dom: Dom) {
    match r.below(if dom == Dom::Wild { 8 } else { 7 }) {
        0 | 2 => s.push_str("# sourceFile"), // resets the file (F7)
        1 => s.push_str(&format!("# sourceFile: {}", r.pick(FILES))),
        7 => s.push_str("# sourceFile:"), // empty value: outside the representable domain
        _ => s.push_str(&format!("# {{\"id\":\"sourceFile\",\"fileName\":\"{}\"}}", r.pick(FILES))),
    }
    s.push_str(nl);
}

/// the query universe of a mapping, read with the implementation's own record iterator
pub struct Universe {
    /// number of member lines per (class, method)
    pub counts: std::collections::BTreeMap<(String, String), usize>,
    pub classes: Vec<String>,
    pub methods: Vec<(String, String)>, // (class obf, method obf) pairs present
    pub args: Vec<String>,
    pub numbers: Vec<usize>,
}

pub fn universe(mapping: &[u8]) -> Universe {
    let mut classes = BTreeSet::new();
    let mut methods = BTreeSet::new();
    let mut args = BTreeSet::new();
    let mut numbers = BTreeSet::new();
    let mut counts: std::collections::BTreeMap<(String, String), usize> = std::collections::BTreeMap::new();
    let mut cur: Option<String> = None;
    let items: Vec<_> = guarded(|| ProguardMapping::new(mapping).iter().collect::<Vec<_>>()).unwrap_or_default();
    for it in items {
        match it {
            Ok(ProguardRecord::Class { obfuscated, .. }) => {
                classes.insert(obfuscated.to_string());
                cur = Some(obfuscated.to_string());
            }
            Ok(ProguardRecord::Method { obfuscated, arguments, line_mapping, .. }) => {
                if let Some(c) = &cur {
                    methods.insert((c.clone(), obfuscated.to_string()));
                    *counts.entry((c.clone(), obfuscated.to_string())).or_default() += 1;
                }
                args.insert(arguments.to_string());
                if let Some(lm) = line_mapping {
                    numbers.insert(lm.startline);
                    numbers.insert(lm.endline);
                }
            }
            _ => {}
        }
    }
    Universe {
        counts,
        classes: classes.into_iter().collect(),
        methods: methods.into_iter().collect(),
        args: args.into_iter().collect(),
        numbers: numbers.into_iter().collect(),
    }
}

/// names next to `s` in byte-lexicographic order, plus near misses
pub fn neighbours(s: &str) -> Vec<String> {
    let mut v = vec![format!("{}!", s), format!("{}a", s)];
    let mut chars: Vec<char> = s.chars().collect();
    if let Some(last) = chars.pop() {
        let shorter: String = chars.iter().collect();
        v.push(shorter.clone());
        if let Some(c) = char::from_u32(last as u32 + 1) {
            v.push(format!("{}{}", shorter, c));
        }
        if last as u32 > 0x21 {
            if let Some(c) = char::from_u32(last as u32 - 1) {
                v.push(format!("{}{}", shorter, c));
            }
        }
    }
    v
}

pub fn class_queries(u: &Universe, r: &mut Rng) -> Vec<String> {
    let mut v: BTreeSet<String> = u.classes.iter().cloned().collect();
    for c in &u.classes {
        for n in neighbours(c) {
            v.insert(n);
        }
    }
    v.insert("zz.unknown".into());
    v.insert(String::new());
    // the JVM-internal spelling of a known class is a different name
    for c in u.classes.iter().take(3) {
        if c.contains('.') {
            v.insert(c.replace('.', "/"));
        }
    }
    v.insert(r.pick(CLS).to_string());
    v.into_iter().collect()
}

pub fn line_set(u: &Universe, r: &mut Rng, all: bool) -> Vec<usize> {
    let mut v = BTreeSet::new();
    for n in &u.numbers {
        v.insert(n.saturating_sub(1));
        v.insert(*n);
        v.insert(n.saturating_add(1));
    }
    // an interior line of every consecutive pair of boundaries
    for w in u.numbers.windows(2) {
        v.insert(w[0] + (w[1] - w[0]) / 2);
    }
    for x in [0usize, 1, 66, (1 << 32) - 2, (1 << 32) - 1, 1 << 32, usize::MAX] {
        v.insert(x);
    }
    // lines congruent to a boundary modulo 2^32 (a narrowing cast of the frame line would alias them)
    for n in u.numbers.iter().take(4) {
        if *n < (1 << 32) {
            v.insert((1usize << 32) + *n);
            v.insert((3usize << 32) + *n);
        }
    }
    if all {
        for x in 0..=66 {
            v.insert(x);
        }
    } else {
        for _ in 0..6 {
            v.insert(r.below(67));
        }
    }
    v.into_iter().collect()
}

#[derive(Clone, Copy)]
pub struct QuerySel {
    pub class: bool,
    pub method: bool,
    pub lines: bool,
    pub params: bool,
    pub all_lines: bool,
    pub both_files: bool,
}

pub fn emit_queries(out: &mut Vec<String>, mapping: &[u8], r: &mut Rng, q: QuerySel) {
    let u = universe(mapping);
    let classes = class_queries(&u, r);
    if q.class {
        for c in &classes {
            out.push(format!("K {}", hex(c.as_bytes())));
        }
    }
    // (class, method) pairs: all present ones, plus unknown method / unknown class / swapped
    let mut pairs: Vec<(String, String)> = u.methods.clone();
    for c in &u.classes {
        pairs.push((c.clone(), "nosuch".into()));
        pairs.push((c.clone(), r.pick(METH).to_string()));
    }
    for (c, m) in u.methods.iter().take(4) {
        for n in neighbours(m).into_iter().take(2) {
            pairs.push((c.clone(), n));
        }
        pairs.push((format!("{}x", c), m.clone()));
    }
    pairs.push(("zz.unknown".into(), "m".into()));
    pairs.sort();
    pairs.dedup();
    if q.method {
        for (c, m) in &pairs {
            out.push(format!("T {} {}", hex(c.as_bytes()), hex(m.as_bytes())));
        }
    }
    if q.lines {
        let lines = line_set(&u, r, q.all_lines);
        for (c, m) in &pairs {
            for l in &lines {
                if q.both_files {
                    out.push(format!("L {} {} {} ~", hex(c.as_bytes()), hex(m.as_bytes()), l));
                    out.push(format!("L {} {} {} {}", hex(c.as_bytes()), hex(m.as_bytes()), l, hex(b"SF.java")));
                } else if r.chance(1, 2) {
                    out.push(format!("L {} {} {} ~", hex(c.as_bytes()), hex(m.as_bytes()), l));
                } else if r.chance(1, 8) {
                    // the frame's own file is the synthetic-class placeholder / empty
                    out.push(format!("L {} {} {} {}", hex(c.as_bytes()), hex(m.as_bytes()), l, hex(r.pick(&["R8$$SyntheticClass", "", "<unknown>"]).as_bytes())));
                } else {
                    out.push(format!("L {} {} {} {}", hex(c.as_bytes()), hex(m.as_bytes()), l, hex(b"SF.java")));
                }
            }
        }
    }
    if q.params {
        let mut args = u.args.clone();
        args.push("no.such.Type".into());
        args.push(String::new());
        args.sort();
        args.dedup();
        for (c, m) in &pairs {
            for a in &args {
                out.push(format!("P {} {} {}", hex(c.as_bytes()), hex(m.as_bytes()), hex(a.as_bytes())));
            }
        }
    }
}

pub fn corpus_files() -> Vec<(String, Vec<u8>)> {
    let mut v = Vec::new();
    if let Ok(rd) = std::fs::read_dir("/repo/tests/res") {
        let mut paths: Vec<_> = rd.filter_map(|e| e.ok()).map(|e| e.path()).collect();
        paths.sort();
        for p in paths {
            if p.extension().map_or(false, |e| e == "txt") {
                if let Ok(b) = std::fs::read(&p) {
                    v.push((p.file_name().unwrap().to_string_lossy().to_string(), b));
                }
            }
        }
    }
    v
}

/// token-level mutation of a grammar file
pub fn mutate(r: &mut Rng, s: &str) -> Vec<u8> {
    let mut b = s.as_bytes().to_vec();
    let n = 1 + r.below(4);
    for _ in 0..n {
        if b.is_empty() {
            break;
        }
        let pos = r.below(b.len());
        match r.below(9) {
            0 => {
                b.remove(pos);
            }
            1 => b.insert(pos, *r.pick(b" :->().#\n\r\t$0129\x0b\x0c\x00\x1f\x7f")),
            2 => b[pos] = *r.pick(b" :->().#\n\r\t$0129\xb2\xff\xc3\x0b\x0c\x00"),
            3 => {
                let tok: &[u8] = *r.pick(&[&b" -> "[..], b"    ", b":", b"\n", b"\r\n", b"# {\"id\":\"sourceFile\",\"fileName\":\"", b"\"}", b"18446744073709551616", b"4294967296", b"()"]);
                for (k, x) in tok.iter().enumerate() {
                    b.insert(pos + k, *x);
                }
            }
            4 => {
                // drop a whole line
                let start = b[..pos].iter().rposition(|c| *c == b'\n').map_or(0, |p| p + 1);
                let end = b[pos..].iter().position(|c| *c == b'\n').map_or(b.len(), |p| pos + p + 1);
                b.drain(start..end);
            }
            5 => {
                // duplicate a line
                let start = b[..pos].iter().rposition(|c| *c == b'\n').map_or(0, |p| p + 1);
                let end = b[pos..].iter().position(|c| *c == b'\n').map_or(b.len(), |p| pos + p + 1);
                let line: Vec<u8> = b[start..end].to_vec();
                for (k, x) in line.iter().enumerate() {
                    b.insert(end + k, *x);
                }
            }
            6 => b.truncate(pos),
            7 => {
                b[pos] = b[pos].wrapping_add(1);
            }
            _ => b.insert(pos, *r.pick(&[0xe2u8, 0x80, 0xa8, 0xc2, 0xa0, 0xb2, 0xb9, 0xbc])),
        }
    }
    b
}

/// token soup over the grammar's delimiters, and raw bytes
pub fn soup(r: &mut Rng) -> Vec<u8> {
    let toks: &[&[u8]] = &[
        b"a", b"b.c", b" -> ", b"->", b":", b"    ", b" ", b"\n", b"\r", b"\r\n", b"#", b"(", b")", b"1", b"23", b"0",
        b"void", b"int x", b".", b"$", b"# {\"id\":\"sourceFile\",\"fileName\":\"", b"\"}", b"\"", b"\xb2", b"\xc2\xb2",
        b"\xff", b"\xc3\xa9", b"18446744073709551615", b"18446744073709551616", b"99999999999999999999999999", b"+5",
        b"\xe2\x80\xa8", b"\xc2\x85", b"\t", b"sourceFile", b"compiler", b"min_api", b"x.y.z", b"<init>", b",",
        b"\x0b\n", b"\x0c\r", b"\x0b", b"\x0c", b"\x00", b"abcdefgh", b"18446744073709551617", b"18446744073709551619",
        b"0018446744073709551616", b"    1:2:void f():", b" -> m",
    ];
    let n = r.below(14);
    let mut b = Vec::new();
    for _ in 0..n {
        b.extend_from_slice(*r.pick(toks));
    }
    b
}
pub fn raw_bytes(r: &mut Rng) -> Vec<u8> {
    let n = r.below(40);
    (0..n).map(|_| if r.chance(1, 3) { *r.pick(b" ->:#()\n\r0123\x0b\x0c") } else { r.below(256) as u8 }).collect()
}

/// corruptions of a valid cache file (C12): field edits, record swaps/duplicates, bit flips,
/// string damage, random body behind a valid header
pub fn corrupt(r: &mut Rng, valid: &[u8]) -> Vec<u8> {
    let mut b = valid.to_vec();
    if b.len() < 24 {
        return b;
    }
    let rd = |b: &[u8], i: usize| u32::from_le_bytes([b[i], b[i + 1], b[i + 2], b[i + 3]]);
    let nc = rd(&b, 8) as usize;
    let nm = rd(&b, 12) as usize;
    let np = rd(&b, 16) as usize;
    let al = |x: usize| (x + 7) / 8 * 8;
    let cls0 = 24;
    let mem0 = al(cls0 + 28 * nc);
    let par0 = al(mem0 + 36 * nm);
    let str0 = al(par0 + 36 * np);
    let n_edits = 1 + r.below(3);
    for _ in 0..n_edits {
        match r.below(13) {
            10 | 11 | 12 if nm > 0 => {
                // (same as 9, more weight)
                let i = r.below(nm);
                let f = *r.pick(&[1usize, 2, 6, 7]);
                let off = mem0 + i * 36 + 4 * f;
                if off + 4 <= b.len() {
                    let cur = rd(&b, off);
                    let v = *r.pick(&[0u32, 1, cur.wrapping_sub(1), cur.wrapping_add(1), 5, 1 << 31, u32::MAX - 1, u32::MAX]);
                    b[off..off + 4].copy_from_slice(&v.to_le_bytes());
                }
            }
            0 | 1 | 2 | 3 => {
                // any 32-bit field := boundary value
                let words = b.len().min(str0) / 4;
                if words == 0 {
                    continue;
                }
                let w = r.below(words);
                let count = *r.pick(&[nc, nm, np, b.len().saturating_sub(str0)]) as u32;
                let v = *r.pick(&[0u32, 1, 2, 7, count.wrapping_sub(1), count, count.wrapping_add(1), 1 << 31, u32::MAX - 1, u32::MAX]);
                b[4 * w..4 * w + 4].copy_from_slice(&v.to_le_bytes());
            }
            4 => {
                // swap two records of a section
                let (start, size, n) = *r.pick(&[(cls0, 28, nc), (mem0, 36, nm), (par0, 36, np)]);
                if n >= 2 {
                    let (i, j) = (r.below(n), r.below(n));
                    for k in 0..size {
                        if start + j * size + k < b.len() && start + i * size + k < b.len() {
                            b.swap(start + i * size + k, start + j * size + k);
                        }
                    }
                }
            }
            5 => {
                // duplicate a record over its neighbour
                let (start, size, n) = *r.pick(&[(cls0, 28, nc), (mem0, 36, nm), (par0, 36, np)]);
                if n >= 2 {
                    let i = r.below(n - 1);
                    for k in 0..size {
                        if start + (i + 1) * size + k < b.len() {
                            b[start + (i + 1) * size + k] = b[start + i * size + k];
                        }
                    }
                }
            }
            6 => {
                let pos = r.below(b.len());
                b[pos] ^= 1 << r.below(8);
            }
            7 if r.chance(1, 2) && nc > 0 => {
                // overwrite the length prefix of a REFERENCED string with a hostile LEB128 number
                let (rec0, size, n, fields): (usize, usize, usize, &[usize]) = match r.below(3) {
                    0 => (cls0, 28, nc, &[0, 1, 2]),
                    1 if nm > 0 => (mem0, 36, nm, &[0, 3, 4, 5, 8]),
                    2 if np > 0 => (par0, 36, np, &[0, 5, 8]),
                    _ => (cls0, 28, nc, &[0, 1]),
                };
                let i = r.below(n);
                let f = *r.pick(fields);
                let at = rec0 + i * size + 4 * f;
                if at + 4 <= b.len() {
                    let off = rd(&b, at) as usize;
                    let prefix: &[u8] = *r.pick(&[
                        &[0xff, 0xff, 0xff, 0xff, 0xff, 0xff, 0xff, 0xff, 0xff, 0x01][..],
                        &[0xff, 0xff, 0xff, 0xff, 0xff, 0xff, 0xff, 0xff, 0x7f][..],
                        &[0xff, 0xff, 0xff, 0xff, 0x0f][..],
                        &[0x80, 0x80, 0x80, 0x80, 0x80, 0x80, 0x80, 0x80, 0x80, 0x02][..],
                        &[0x80][..],
                        &[0x80, 0x00][..],
                        &[0xff, 0x7f][..],
                    ]);
                    if off != u32::MAX as usize && str0 + off < b.len() {
                        for (k, x) in prefix.iter().enumerate() {
                            if str0 + off + k < b.len() {
                                b[str0 + off + k] = *x;
                            }
                        }
                    }
                }
            }
            7 => {
                // damage the string section: length prefixes and UTF-8
                if str0 < b.len() {
                    let pos = str0 + r.below(b.len() - str0);
                    b[pos] = *r.pick(&[0u8, 0x80, 0xff, 0xc3, 0x7f, 0x81, 1]);
                }
            }
            9 if nm > 0 => {
                // a member's line fields := boundary values (untrusted line arithmetic)
                let (start, n) = if np > 0 && r.chance(1, 4) { (par0, np) } else { (mem0, nm) };
                let i = r.below(n);
                let f = *r.pick(&[1usize, 2, 6, 7]);
                let off = start + i * 36 + 4 * f;
                if off + 4 <= b.len() {
                    let cur = rd(&b, off);
                    let v = *r.pick(&[0u32, 1, cur.wrapping_sub(1), cur.wrapping_add(1), 5, 1 << 31, u32::MAX - 1, u32::MAX]);
                    b[off..off + 4].copy_from_slice(&v.to_le_bytes());
                }
            }
            8 => {
                // random body behind the valid header
                for x in b.iter_mut().skip(24) {
                    if r.chance(1, 3) {
                        *x = r.below(256) as u8;
                    }
                }
            }
            _ => {
                let keep = r.below(b.len() + 1);
                b.truncate(keep.max(24));
            }
        }
    }
    b
}

pub fn write_cache(mapping: &[u8]) -> Option<Vec<u8>> {
    guarded(|| {
        let mut buf = Vec::new();
        ProguardCache::write(&ProguardMapping::new(mapping), &mut buf).ok().map(|_| buf)
    })
    .flatten()
}

/// cache queries (lowercase ops, answered by the buffer of the preceding X line)
pub fn emit_cache_queries(out: &mut Vec<String>, mapping: &[u8], r: &mut Rng, per_kind: usize) {
    let u = universe(mapping);
    let classes = class_queries(&u, r);
    let mut pairs: Vec<(String, String)> = u.methods.clone();
    pairs.push(("zz.unknown".into(), "m".into()));
    for c in u.classes.iter().take(3) {
        pairs.push((c.clone(), "nosuch".into()));
    }
    for _ in 0..per_kind {
        let c = r.pick(&classes).clone();
        out.push(format!("k {}", hex(c.as_bytes())));
        let (c, m) = r.pick(&pairs).clone();
        out.push(format!("t {} {}", hex(c.as_bytes()), hex(m.as_bytes())));
    }
    let lines = line_set(&u, r, false);
    for _ in 0..(3 * per_kind) {
        let (c, m) = r.pick(&pairs).clone();
        let l = *r.pick(&lines);
        let f = if r.chance(1, 2) { "~".to_string() } else { hex(b"SF.java") };
        out.push(format!("l {} {} {} {}", hex(c.as_bytes()), hex(m.as_bytes()), l, f));
    }
    let mut args = u.args.clone();
    args.push("no.such".into());
    for _ in 0..per_kind {
        let (c, m) = r.pick(&pairs).clone();
        out.push(format!("p {} {} {}", hex(c.as_bytes()), hex(m.as_bytes()), hex(r.pick(&args).as_bytes())));
    }
    let t = crate::trace::gen_text(r, &u);
    out.push(format!("s {}", hex(t.as_bytes())));
    let g = crate::trace::gen_signature(r, &u);
    out.push(format!("g {}", hex(g.as_bytes())));
}

/// large structure: class counts and method-group sizes around powers of two (binary search and
/// range expansion edge cases), long strings (multi-byte length prefixes), 4-byte UTF-8 names
pub fn gen_big_mapping(r: &mut Rng) -> String {
    let ncls = *r.pick(&[21usize, 24, 33, 63, 64, 65, 127, 128, 129, 255, 256, 257, 511, 512, 513, 1000, 1024, 1025]);
    let nl = *r.pick(&["\n", "\r\n"]);
    let mut names: Vec<String> = (0..ncls)
        .map(|i| match r.below(6) {
            0 => format!("p{}.C{}", i % 7, i),
            1 => format!("c{:04}", i),
            2 => format!("a.b${}", i),
            3 => format!("é{}.😀{}", i % 3, i),
            4 => format!("{}x{}", "q".repeat(1 + i % 5), i),
            _ => format!("z{}", i),
        })
        .collect();
    // file order is not sorted order
    for i in (1..names.len()).rev() {
        let j = r.below(i + 1);
        names.swap(i, j);
    }
    if r.chance(1, 2) {
        // one very long name: three-byte LEB128 length prefix, exact boundary lengths included
        let k = r.below(names.len());
        let len = *r.pick(&[16379usize, 16380, 16384, 16400, 16507]) - 5 + 5 * r.below(2);
        names[k] = format!("long.{}", "n".repeat(len));
    }
    // duplicated class names (the last block wins): a few names occur again later in the file
    let ndup = 1 + r.below(4);
    for _ in 0..ndup {
        let k = r.below(names.len());
        let n = names[k].clone();
        let pos = r.below(names.len() + 1);
        names.insert(pos, n);
    }
    // special classes: (a) three classes sharing one big method set (same obf/args/orig triples),
    // (b) one class where ONE obfuscated name has N entries, N around the sizes where search code changes strategy
    let specials: Vec<usize> = (0..3).map(|_| r.below(names.len())).collect();
    let group = *r.pick(&[17usize, 20, 23, 33, 40, 64, 65, 100, 255, 256, 257]);
    const SIZES: &[usize] = &[33, 34, 35, 40, 62, 63, 64, 65, 66, 90, 127, 128, 129, 130, 131, 219, 255, 256, 257, 258, 259, 260, 476, 513, 514, 515, 516, 517];
    let singles: Vec<(usize, usize, usize, usize)> = (0..6)
        .map(|_| (r.below(names.len()), *r.pick(SIZES), *r.pick(&[0usize, 0, 3, 40]), *r.pick(&[0usize, 0, 3, 40])))
        .collect();
    let mut s = String::new();
    for (i, n) in names.iter().enumerate() {
        s.push_str(&format!("com.example.Orig{} -> {}:{}", i, n, nl));
        if r.chance(1, 9) {
            s.push_str(&format!("# {{\"id\":\"sourceFile\",\"fileName\":\"F{}.kt\"}}{}", i, nl));
        }
        if let Some(&(_, single_n, single_pre, single_post)) = singles.iter().find(|x| x.0 == i) {
            for k in 0..single_pre {
                s.push_str(&format!("    void pre{}() -> a{}{}", k, k, nl));
            }
            for k in 0..single_n {
                let a = 1 + 2 * k;
                match if k % 5 == 4 { 3 } else { k % 3 } {
                    3 => s.push_str(&format!("    void h{}() -> b{}", k, nl)),
                    0 => s.push_str(&format!("    {}:{}:void f{}():{}:{} -> b{}", a, a + 1, k, 100 + k, 101 + k, nl)),
                    1 => s.push_str(&format!("    {}:{}:int com.other.K.inl{}(int):{} -> b{}", a, a + 1, k, 7 + k, nl)),
                    _ => s.push_str(&format!("    {}:{}:void g{}(int) -> b{}", a, a, k % 7, nl)),
                }
            }
            for k in 0..single_post {
                s.push_str(&format!("    void post{}() -> c{}{}", k, k, nl));
            }
            continue;
        }
        let is_special = specials.contains(&i);
        let nm = if is_special { group } else { r.below(3) };
        for k in 0..nm {
            // interleaved obfuscated names, deterministic shape so that the special classes share triples
            let obf = if is_special { format!("m{}", (k * 7) % 5) } else { format!("m{}", k) };
            let a = 1 + (k * 3) % 60;
            let kind = if is_special { k % 4 } else { r.below(4) };
            match kind {
                0 => s.push_str(&format!("    void orig{}(int) -> {}{}", k, obf, nl)),
                1 => s.push_str(&format!("    {}:{}:void orig{}():{}:{} -> {}{}", a, a + 2, k, 100 + k, 102 + k, obf, nl)),
                2 => s.push_str(&format!("    {}:{}:int com.other.K{}.inl{}(int):{} -> {}{}", a, a + 2, k % 3, k, 7 + k, obf, nl)),
                _ => s.push_str(&format!("    {}:{}:void orig{}(java.lang.String,int) -> {}{}", a, a, k % 4, obf, nl)),
            }
        }
    }
    s
}

/// queries for a big mapping: a sample of classes (first, last, middle, random, neighbours) and
/// every method of the special classes
pub fn emit_big_queries(out: &mut Vec<String>, mapping: &[u8], r: &mut Rng, q: QuerySel) {
    let u = universe(mapping);
    let mut sorted = u.classes.clone();
    sorted.sort();
    let mut picks: Vec<String> = Vec::new();
    if !sorted.is_empty() {
        for idx in [0, 1, sorted.len() / 2, sorted.len() - 1, sorted.len().saturating_sub(2)] {
            picks.push(sorted[idx.min(sorted.len() - 1)].clone());
        }
        for _ in 0..25 {
            picks.push(r.pick(&sorted).clone());
        }
    }
    // the classes with the largest member sets are always queried (all their methods)
    let mut counts: std::collections::BTreeMap<&String, usize> = std::collections::BTreeMap::new();
    for (c, _) in &u.methods {
        *counts.entry(c).or_default() += 1;
    }
    let mut by_count: Vec<(&String, usize)> = counts.into_iter().collect();
    by_count.sort_by(|a, b| b.1.cmp(&a.1));
    let heavy: Vec<String> = by_count.iter().take(9).map(|(c, _)| (*c).clone()).collect();
    for c in &heavy {
        picks.push(c.clone());
    }
    // names that occur more than once in the file (duplicate class lines)
    {
        let text = String::from_utf8_lossy(mapping);
        let mut seen: std::collections::BTreeMap<String, usize> = std::collections::BTreeMap::new();
        for l in text.lines() {
            if !l.starts_with(' ') && !l.starts_with('#') {
                if let Some((_, b)) = l.split_once(" -> ") {
                    *seen.entry(b.trim_end_matches(|c| c == ':' || c == '\r').to_string()).or_default() += 1;
                }
            }
        }
        for (n, k) in seen {
            if k > 1 {
                picks.push(n);
            }
        }
    }
    let n0 = picks.len();
    for i in 0..n0.min(6) {
        for n in neighbours(&picks[i].clone()).into_iter().take(2) {
            picks.push(n);
        }
    }
    picks.push("zzzz.unknown".into());
    picks.sort();
    picks.dedup();
    // a sample of the line set: big files have hundreds of range boundaries
    let all_lines = line_set(&u, r, false);
    let mut lines: Vec<usize> = Vec::new();
    for _ in 0..30 {
        lines.push(*r.pick(&all_lines));
    }
    lines.extend_from_slice(&[0, 1, 2, 3, 66, usize::MAX]);
    lines.sort();
    lines.dedup();
    for c in &picks {
        if q.class {
            out.push(format!("K {}", hex(c.as_bytes())));
        }
        // methods with the most member lines first
        let mut methods: Vec<&(String, String)> = u.methods.iter().filter(|(cc, _)| cc == c).collect();
        methods.sort_by(|a, b| u.counts.get(*b).cmp(&u.counts.get(*a)));
        let cap = if heavy.contains(c) { 12 } else { 4 };
        for (_, m) in methods.iter().take(cap) {
            if q.method {
                out.push(format!("T {} {}", hex(c.as_bytes()), hex(m.as_bytes())));
            }
            if q.lines {
                for l in lines.iter().step_by(if heavy.contains(c) { 1 } else { 3 }) {
                    out.push(format!("L {} {} {} ~", hex(c.as_bytes()), hex(m.as_bytes()), l));
                }
            }
            if q.params {
                for a in ["", "int", "java.lang.String,int", "nope"] {
                    out.push(format!("P {} {} {}", hex(c.as_bytes()), hex(m.as_bytes()), hex(a.as_bytes())));
                }
            }
        }
    }
}
