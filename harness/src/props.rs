//! Per-property case lists.
use crate::gen::*;
use crate::util::*;
#[allow(unused_imports)]
use proguard::*;

pub struct Budget {
    pub mappings: usize,
    pub thorough: bool,
}
pub fn budget(tier: &str, quick: usize, thorough: usize) -> Budget {
    if tier == "search" {
        // the search for a failing input after a broken obligation: several times the quick budget
        return Budget { mappings: (quick * 6).min(thorough), thorough: false };
    }
    if tier == "thorough" {
        Budget { mappings: thorough, thorough: true }
    } else {
        Budget { mappings: quick, thorough: false }
    }
}

/// bounded-exhaustive sweep E1 (all mappings of <= 5 lines over the 12-line alphabet x fixed query universe):
/// every block, or a seeded sample of `sample` blocks.  Placed last: no mapping-dependent operation follows.
fn e1_blocks(out: &mut Vec<String>, r: &mut Rng, sample: Option<usize>) {
    let total = crate::run::sweep_total(crate::run::ALPHA1.len() as u64, crate::run::E1_MAXLEN);
    let blocks = (total + crate::run::E1_BLOCK - 1) / crate::run::E1_BLOCK;
    match sample {
        None => {
            for b in 0..blocks {
                out.push(format!("E1 {}", b));
            }
        }
        Some(k) => {
            out.push("E1 0".into());
            for _ in 0..k {
                out.push(format!("E1 {}", r.below(blocks as usize)));
            }
        }
    }
}

fn push_mapping(out: &mut Vec<String>, m: &[u8]) {
    out.push(format!("M {}", hex(m)));
    // the domain predicate of the cache theorems (dom32 && sizes_ok) is evaluated by the model for
    // mappings of moderate size (the model's string table is an association list)
    if m.len() < 60_000 {
        out.push("DOM".into());
    }
}
fn push_wild(out: &mut Vec<String>, m: &[u8]) {
    out.push(format!("M {}", hex(m)));
}

const REP: GenOpts = GenOpts { dom: Dom::Representable, max_classes: 5, noise: true };
const WILD: GenOpts = GenOpts { dom: Dom::Wild, max_classes: 4, noise: true };

/// corpus/<id>/*.cases files are prepended by the runner; here only generated cases.
pub fn cases(prop: &str, seed: u64, tier: &str) -> Vec<String> {
    let mut r = Rng(seed ^ 0x5eed_0000 ^ (prop.bytes().fold(0u64, |a, b| a.wrapping_mul(131).wrapping_add(b as u64))));
    let mut out = Vec::new();
    match prop {
        "C01" => {
            fixed_shapes(&mut out, &mut r, false);
            big_cases(&mut out, &mut r, QuerySel { class: false, method: false, lines: true, params: false, all_lines: false, both_files: false }, if tier == "quick" { 1 } else { 12 }, false);
            let b = budget(tier, 120, 4000);
            for i in 0..b.mappings {
                let opts = GenOpts { dom: Dom::Representable, max_classes: if i % 12 == 5 { 60 } else { 5 }, noise: true };
                let m = gen_mapping(&mut r, &opts);
                if !representable(m.as_bytes()) {
                    continue;
                }
                push_mapping(&mut out, m.as_bytes());
                let q = QuerySel { class: false, method: false, lines: true, params: false, all_lines: b.thorough && i % 4 == 0, both_files: b.thorough };
                emit_queries(&mut out, m.as_bytes(), &mut r, q);
                // metamorphic variants: same records, other line endings / extra noise
                if i % 3 == 0 {
                    for v in variants(&mut r, &m) {
                        push_mapping(&mut out, v.as_bytes());
                        emit_queries(&mut out, v.as_bytes(), &mut r, QuerySel { all_lines: false, both_files: false, ..q });
                    }
                }
            }
            corpus_queries(&mut out, &mut r, QuerySel { class: false, method: false, lines: true, params: false, all_lines: false, both_files: false }, b.thorough);
            e1_blocks(&mut out, &mut r, None);
        }
        "C02" => {
            fixed_shapes(&mut out, &mut r, false);
            big_cases(&mut out, &mut r, QuerySel { class: true, method: true, lines: true, params: true, all_lines: false, both_files: false }, if tier == "quick" { 1 } else { 12 }, true);
            let b = budget(tier, 100, 3000);
            for i in 0..b.mappings {
                let m = if i % 5 == 4 {
                    { let g = gen_mapping(&mut r, &REP); String::from_utf8_lossy(&mutate(&mut r, &g)).to_string() }
                } else if i % 12 == 5 {
                    // many class blocks from a small name pool: duplicates among more than 20 blocks
                    gen_mapping(&mut r, &GenOpts { dom: Dom::Representable, max_classes: 60, noise: true })
                } else {
                    gen_mapping(&mut r, &REP)
                };
                if !representable(m.as_bytes()) {
                    continue;
                }
                push_mapping(&mut out, m.as_bytes());
                let q = QuerySel { class: true, method: true, lines: true, params: true, all_lines: false, both_files: false };
                emit_queries(&mut out, m.as_bytes(), &mut r, q);
                emit_text_queries(&mut out, m.as_bytes(), &mut r, 2, 2, 3);
            }
            corpus_queries(&mut out, &mut r, QuerySel { class: true, method: true, lines: true, params: true, all_lines: false, both_files: false }, b.thorough);
            if b.thorough {
                huge_cases(&mut out, &mut r);
            }
            e1_blocks(&mut out, &mut r, None);
        }
        "C03" => {
            big_cases(&mut out, &mut r, QuerySel { class: false, method: false, lines: false, params: true, all_lines: false, both_files: false }, if tier == "quick" { 2 } else { 12 }, false);
            let b = budget(tier, 200, 6000);
            for _ in 0..b.mappings {
                let m = gen_mapping(&mut r, &REP);
                if !representable(m.as_bytes()) {
                    continue;
                }
                push_mapping(&mut out, m.as_bytes());
                let q = QuerySel { class: false, method: false, lines: false, params: true, all_lines: false, both_files: false };
                emit_queries(&mut out, m.as_bytes(), &mut r, q);
                // parameter frames inside typed traces (neighbouring overloads)
                let u = universe(m.as_bytes());
                for _ in 0..2 {
                    out.push(format!("YA {}", crate::trace::gen_typed_ast(&mut r, &u)).trim_end().to_string());
                }
            }
            corpus_queries(&mut out, &mut r, QuerySel { class: false, method: false, lines: false, params: true, all_lines: false, both_files: false }, b.thorough);
            e1_blocks(&mut out, &mut r, if tier == "quick" { Some(100) } else { None });
        }
        "C04" => {
            std_cases(&mut out, &mut r, &["HC", "HB"], if tier == "quick" { 300 } else { 8000 });
            big_cases(&mut out, &mut r, QuerySel { class: true, method: true, lines: false, params: false, all_lines: false, both_files: false }, if tier == "quick" { 3 } else { 20 }, false);
            let b = budget(tier, 200, 6000);
            for i in 0..b.mappings {
                let o = GenOpts { dom: Dom::Representable, max_classes: if i % 10 == 0 { 150 } else { 8 }, noise: true };
                let m = gen_mapping(&mut r, &o);
                if !representable(m.as_bytes()) {
                    continue;
                }
                push_mapping(&mut out, m.as_bytes());
                let q = QuerySel { class: true, method: true, lines: false, params: false, all_lines: false, both_files: false };
                emit_queries(&mut out, m.as_bytes(), &mut r, q);
                // consistency clause: method lookup vs line based frames
                if i % 4 == 1 {
                    let q = QuerySel { class: false, method: false, lines: true, params: false, all_lines: false, both_files: false };
                    emit_queries(&mut out, m.as_bytes(), &mut r, q);
                }
            }
            corpus_queries(&mut out, &mut r, QuerySel { class: true, method: true, lines: false, params: false, all_lines: false, both_files: false }, b.thorough);
            e1_blocks(&mut out, &mut r, if tier == "quick" { Some(100) } else { None });
        }
        "C06" | "C13P" => {
            std_cases(&mut out, &mut r, &["HU", "HN", "HP", "HT"], if tier == "quick" { 150 } else { 5000 });
            let b = budget(tier, 3000, 200000);
            // fixed shapes: a sourceFile header ending in a backslash before the line break with a `"}` on the next
            // line, escapes inside the value, very long runs of line terminators, zero padded numbers
            for f in [
                "# {\"id\":\"sourceFile\",\"fileName\":\"abc\\\nx\"}\na.B -> c:\n",
                "# {\"id\":\"sourceFile\",\"fileName\":\"abc\\\r\n\"}\r\na.B -> c:\r\n",
                "# {\"id\":\"sourceFile\",\"fileName\":\"a\\\"b\"}\na.B -> c:\n",
                "a.B -> c:\n    000000000000000000007:0000000000000000000000009:void zp():00000000000000000000011 -> z\n",
            ] {
                push_wild(&mut out, f.as_bytes());
                out.push("I".into());
            }
            for (n, ch) in [(3000usize, "\n"), (5000, "\r"), (4000, "\r\n")] {
                let f = format!("a.B -> c:{}    void f() -> g{}", ch.repeat(n), ch.repeat(n / 2));
                push_wild(&mut out, f.as_bytes());
                out.push("I".into());
            }
            for k in 0..2 {
                let n = *r.pick(&[999usize, 1000, 1001, 1200]) + k;
                let mut f = Vec::new();
                for i in 0..n {
                    f.extend_from_slice(format!("?? {}\n", i).as_bytes());
                }
                f.extend_from_slice(b"x.Y -> z:\n    void f() -> g\n");
                push_wild(&mut out, &f);
                out.push("I".into());
            }
            {
                // bounded-exhaustive: all strings up to length 7 over a 9-symbol alphabet (digest per block);
                // quick tier: a seeded sample of blocks
                let total = crate::run::sweep_total(9, 7);
                let blocks = (total + crate::run::SWEEP_BLOCK - 1) / crate::run::SWEEP_BLOCK;
                if b.thorough {
                    for blk in 0..blocks {
                        out.push(format!("E6 {}", blk));
                    }
                } else {
                    for _ in 0..40 {
                        out.push(format!("E6 {}", r.below(blocks as usize)));
                    }
                }
            }
            for i in 0..b.mappings {
                let bytes = match i % 5 {
                    0 => gen_mapping(&mut r, &WILD).into_bytes(),
                    1 | 2 => { let g = gen_mapping(&mut r, &WILD); mutate(&mut r, &g) }
                    3 => soup(&mut r),
                    _ => raw_bytes(&mut r),
                };
                push_wild(&mut out, &bytes);
                out.push("I".into());
            }
        }
        "C19" => {
            let b = budget(tier, 1500, 180000);
            // deterministic: the first 50 items span more than 64 KiB, the deciding pair lies behind byte 65536
            for n in [46usize, 47, 48, 49, 50] {
                let mut s = String::new();
                for i in 0..n {
                    s.push_str(&format!("# c{}: {}\n", i, "v".repeat(1500)));
                }
                s.push_str("com.A -> a:\n    1:2:void m():3:4 -> b\n");
                push_wild(&mut out, s.as_bytes());
                out.push("D".into());
            }

            for i in 0..b.mappings {
                let bytes = match i % 6 {
                    0 => gen_mapping(&mut r, &WILD).into_bytes(),
                    1 => { let g = gen_mapping(&mut r, &WILD); mutate(&mut r, &g) }
                    2 => soup(&mut r),
                    _ => metadata_file(&mut r),
                };
                push_wild(&mut out, &bytes);
                out.push("D".into());
                if i % 5 == 0 && !bytes.is_empty() {
                    // metadata of a section taken after the parent answered: that of the section's own bytes
                    let (a, bnd) = (r.below(bytes.len() + 1), r.below(bytes.len() + 1));
                    out.push(format!("SEC {} {}", a.min(bnd), a.max(bnd)));
                }
            }
            for (_, bytes) in corpus_files() {
                push_wild(&mut out, &bytes);
                out.push("D".into());
                if bytes.len() < 300_000 {
                    out.push(format!("SEC {} {}", bytes.len() / 3, bytes.len() / 3 * 2));
                }
            }
        }
        "C15" => {
            let b = budget(tier, 25, 1200);
            {
                // sections larger than 1 MiB: one class with 32000 member lines (few distinct strings)
                let mut m = String::from("com.A -> a:\n");
                for i in 0..32000 {
                    m.push_str(&format!("    {}:{}:void f():{}:{} -> a\n", 1 + i % 900, 1 + i % 900, i % 77, i % 77));
                }
                out.push(format!("M {} =nomodel", hex(m.as_bytes())));
                out.push("ZI max=0".into());
                for i in [2usize, 3, 4, 5] {
                    out.push(format!("ZI max=0 {}:S100 {}:S50", i, i + 1));
                    out.push(format!("ZI max=0 {}:S1 {}:S1 {}:S1", i, i + 1, i + 2));
                }
                out.push("ZI max=700000".into());
                // more than 4096 classes: a sink failing exactly once at call i, accepting afterwards
                let mut m = String::new();
                for i in 0..5000 {
                    m.push_str(&format!("com.C{} -> c{}:\n", i, i));
                }
                out.push(format!("M {} =nomodel", hex(m.as_bytes())));
                for i in 0..40 {
                    out.push(format!("ZI max=0 {}:F", i));
                }
                for i in [4990usize, 5000, 5001, 5002, 5003, 5004] {
                    out.push(format!("ZI max=0 {}:F", i));
                }
            }
            for i_map in 0..b.mappings {
                let o = GenOpts { dom: Dom::Representable, max_classes: 3, noise: false };
                let m = gen_mapping(&mut r, &o);
                if !representable(m.as_bytes()) {
                    continue;
                }
                push_mapping(&mut out, m.as_bytes());
                // at most k bytes per call
                for k in 0..=16 {
                    out.push(format!("Z max={}", k));
                }
                // the number of write calls of an unlimited sink bounds the interesting call indices
                let calls = 12 + 2 * universe(m.as_bytes()).classes.len();
                for i in 0..calls {
                    out.push(format!("Z max=0 {}:S1", i));
                    out.push(format!("Z max=0 {}:S0", i));
                    out.push(format!("Z max=0 {}:F", i));
                    out.push(format!("Z max=0 {}:I", i));
                    out.push(format!("Z max=5 {}:I {}:S2 {}:F", i, i + 1, i + 7));
                }
                // gathering sinks (write_vectored offered): per-call room just above / inside each section end,
                // i.e. every capacity from 17 to 200 once, and the small ones
                for k in (1..=16).chain((17..=200).filter(|k| (k + i_map) % 3 == 0)) {
                    out.push(format!("Z max={} vec", k));
                }
                for i in 0..calls.min(12) {
                    out.push(format!("Z max=0 vec {}:S{}", i, 1 + r.below(40)));
                    out.push(format!("Z max={} vec {}:I", 20 + r.below(100), i));
                }
                for _ in 0..20 {
                    let mx = r.below(9);
                    let mut toks = Vec::new();
                    for _ in 0..r.below(5) {
                        let i = r.below(60);
                        let resp = match r.below(4) { 0 => "I".to_string(), 1 => "F".to_string(), 2 => format!("S{}", r.below(4)), _ => "I".to_string() };
                        toks.push(format!("{}:{}", i, resp));
                    }
                    out.push(format!("Z max={} {}", mx, toks.join(" ")).trim_end().to_string());
                }
            }
        }
        "C18" => {
            let b = budget(tier, 150, 3000);
            push_wild(&mut out, b"");
            out.push("U".into());
            for (_, bytes) in corpus_files() {
                if bytes.len() > 200_000 && !b.thorough {
                    continue;
                }
                push_wild(&mut out, &bytes);
                out.push("U".into());
                // LF vs CRLF variants are different files and get different identifiers
                let crlf: Vec<u8> = String::from_utf8_lossy(&bytes).replace('\n', "\r\n").into_bytes();
                push_wild(&mut out, &crlf);
                out.push("U".into());
            }
            for i in 0..b.mappings {
                let bytes: Vec<u8> = match i % 4 {
                    0 => gen_mapping(&mut r, &WILD).into_bytes(),
                    1 => raw_bytes(&mut r),
                    _ => {
                        // lengths around the SHA-1 block and padding boundaries, up to 1 MiB in the thorough tier
                        let n = match r.below(8) {
                            0 => 55 + r.below(3),
                            1 => 63 + r.below(3),
                            2 => 119 + r.below(3),
                            3 => r.below(5000),
                            4 if b.thorough && i % 200 == 2 => 1 << 20,
                            _ => r.below(300),
                        };
                        (0..n).map(|_| r.below(256) as u8).collect()
                    }
                };
                // a byte order mark (or anything else) in front is part of the content
                let bytes = if i % 11 == 3 { [&b"\xef\xbb\xbf"[..], &bytes[..]].concat() } else { bytes };
                push_wild(&mut out, &bytes);
                out.push("U".into());
                if !bytes.is_empty() && bytes.len() < 20000 {
                    // sections of an already hashed mapping are hashed on their own bytes
                    let a = r.below(bytes.len());
                    let b = a + r.below(bytes.len() - a + 1);
                    out.push(format!("US {} {}", a, b));
                    out.push("U".into());
                }
            }
        }
        "C14" | "C09" => {
            if prop == "C09" {
                std_cases(&mut out, &mut r, &["HE", "HD", "HW"], if tier == "quick" { 200 } else { 5000 });
            }
            big_cases(&mut out, &mut r, QuerySel { class: false, method: false, lines: false, params: false, all_lines: false, both_files: false }, if tier == "quick" { 2 } else { 10 }, true);
            {
                // strings at the 3 -> 4 byte boundary of the LEB128 length prefix (2^21 bytes): written, read back
                // and looked up through the cache; the model is not run on 2 MiB lines (implementation-only
                // variants: mapper = cache, self test)
                let h = |s: &str| hex(s.as_bytes());
                let sizes: &[usize] = if prop != "C09" { &[] } else if tier == "quick" { &[(1 << 21) + 5] } else { &[(1 << 21) - 1, 1 << 21, (1 << 21) + 5] };
                for &n in sizes {
                    let long = "n".repeat(n - 2);
                    let m = format!("p.{} -> a:\n    void q{}() -> m\n    1:2:void r():5:6 -> m\n", long, long);
                    out.push(format!("M {} =nomodel", hex(m.as_bytes())));
                    out.push(format!("KI {}", h("a")));
                    out.push(format!("TI {} {}", h("a"), h("m")));
                    out.push(format!("LI {} {} 1 ~", h("a"), h("m")));
                    out.push(format!("PI {} {} {}", h("a"), h("m"), h("")));
                    out.push("W".into());
                }
            }
            {
                // source-file values with white space at their edges (the JSON header form keeps the value verbatim,
                // the key:value form trims it): written, decoded by the layout checker, self test
                let m = "a.A -> a:\n# {\"id\":\"sourceFile\",\"fileName\":\" Foo.kt\"}\n    1:2:void f():5:6 -> m\nb.B -> b:\n# {\"id\":\"sourceFile\",\"fileName\":\"Bar.kt\u{3000}\"}\n    void g() -> n\nc.C -> c:\n#   sourceFile  :   Baz.kt  \n    void h() -> o\nd.D -> d:\n# {\"id\":\"sourceFile\",\"fileName\":\"\tT ab.kt\t\"}\n    1:1:void i():1 -> p\n";
                push_mapping(&mut out, m.as_bytes());
                out.push("W".into());
            }
            {
                // one class with a little more than 2^16 distinct by-params entries; the entries i and 65536 + i
                // (i < 64) share obfuscated name and parameters and differ in the original name: a 16-bit
                // position / index anywhere in the writer makes them tie (implementation-only: too big for the model)
                let (n, k) = (65536usize, 64usize);
                let mut m = String::from("com.example.Big -> a:\n");
                for i in 0..k {
                    m.push_str(&format!("    {}:{}:void first{}() -> x\n", 2 * i + 1, 2 * i + 1, i));
                }
                for i in k..n {
                    m.push_str(&format!("    {}:{}:void filler{}() -> f{}\n", 2 * i + 1, 2 * i + 1, i, i));
                }
                for i in 0..k {
                    let l = 2 * (n + i) + 1;
                    m.push_str(&format!("    {}:{}:void second{}() -> x\n", l, l, i));
                }
                out.push(format!("M {} =nomodel", hex(m.as_bytes())));
                out.push("W".into());
                out.push(format!("PI {} {} {}", hex(b"a"), hex(b"x"), hex(b"")));
                out.push("W".into());
            }
            let b = budget(tier, 300, 6000);
            for i in 0..b.mappings {
                let o = GenOpts { dom: Dom::Representable, max_classes: if i % 25 == 0 { 120 } else { 6 }, noise: true };
                let m = gen_mapping(&mut r, &o);
                if !representable(m.as_bytes()) {
                    continue;
                }
                push_mapping(&mut out, m.as_bytes());
                out.push("W".into());
                if i % 3 == 0 {
                    // a write that fails half way (sink error after k calls) must not influence later writes
                    // (implementation-only sink operation: only the effect on the following write matters here)
                    out.push(format!("ZI max=0 {}:F", 1 + r.below(4)));
                }
                if prop == "C14" && i % 2 == 0 {
                    // the same bytes through a gathering sink with little room per call
                    out.push(format!("ZI max={} vec", 25 + (i % 90)));
                    // a section taken after the parent was written / summarised is the mapping of its bytes
                    let (a, bnd) = (r.below(m.len() + 1), r.below(m.len() + 1));
                    out.push(format!("SEC {} {}", a.min(bnd), a.max(bnd)));
                    out.push("SEC 0 0".into());
                }
                out.push("W".into());
            }
            for (_, bytes) in corpus_files() {
                if bytes.len() > 400_000 && !b.thorough {
                    continue;
                }
                push_mapping(&mut out, &bytes);
                out.push("W".into());
            }
        }
        "C20" => {
            let b = budget(tier, 60, 4500);
            for _ in 0..b.mappings {
                let m = gen_mapping(&mut r, &REP);
                if !representable(m.as_bytes()) {
                    continue;
                }
                push_mapping(&mut out, m.as_bytes());
                let q = QuerySel { class: true, method: true, lines: true, params: true, all_lines: false, both_files: false };
                let mut qs = Vec::new();
                emit_queries(&mut qs, m.as_bytes(), &mut r, q);
                if qs.len() > 400 {
                    let step = qs.len() / 400 + 1;
                    qs = qs.into_iter().step_by(step).collect();
                }
                out.extend(qs);
                emit_text_queries(&mut out, m.as_bytes(), &mut r, 3, 3, 3);
                // the shared mapping itself: a section taken (by any thread) after the parent was queried
                let (a, bnd) = (r.below(m.len() + 1), r.below(m.len() + 1));
                out.push(format!("SEC {} {}", a.min(bnd), a.max(bnd)));
                out.push("D".into());
            }
        }
        "C10" => {
            let b = budget(tier, 80, 2500);
            fixed_shapes(&mut out, &mut r, false);
            for k in 0..(if tier == "quick" { 3 } else { 12 }) {
                // strings of 1 KiB and more, repeated under one obfuscated name (interning / de-duplication)
                let long = "L".repeat(*r.pick(&[1023usize, 1024, 1025, 2000]) + k);
                let m = format!("com.A -> a:\n    1:1:void {}():1:1 -> m\n    2:2:void {}():2:2 -> m\n    3:3:void other():3:3 -> n\ncom.B -> b:\n    void {}(int) -> m\n", long, long, long);
                push_mapping(&mut out, m.as_bytes());
                out.push("W".into());
                for (c, mm) in [("a", "m"), ("a", "n"), ("b", "m")] {
                    out.push(format!("T {} {}", hex(c.as_bytes()), hex(mm.as_bytes())));
                    out.push(format!("L {} {} 1 ~", hex(c.as_bytes()), hex(mm.as_bytes())));
                    out.push(format!("L {} {} 2 ~", hex(c.as_bytes()), hex(mm.as_bytes())));
                    out.push(format!("P {} {} {}", hex(c.as_bytes()), hex(mm.as_bytes()), hex(b"")));
                }
            }
            for i in 0..b.mappings {
                let m = gen_mapping(&mut r, &REP);
                if !representable(m.as_bytes()) {
                    continue;
                }
                push_mapping(&mut out, m.as_bytes());
                out.push("W".into());
                let q = QuerySel { class: true, method: true, lines: true, params: true, all_lines: false, both_files: false };
                let mut qs = Vec::new();
                emit_queries(&mut qs, m.as_bytes(), &mut r, q);
                if qs.len() > 300 {
                    let step = qs.len() / 300 + 1;
                    qs = qs.into_iter().step_by(step).collect();
                }
                out.extend(qs);
                emit_text_queries(&mut out, m.as_bytes(), &mut r, 3, 0, 3);
                // typed remapping (Y): the pinned release has the defect F3 (a throwable whose class is not in
                // the mapping is dropped; fixed by a9ed7b0), which changes typed answers in the same way whatever
                // the file bytes.  The cross-release runner therefore compares typed answers with that one
                // difference normalised on both sides (xver.rs, typed_modulo_f3); everything that comes from the
                // file is compared as it is.  Own generator state: the stream of the other cases is unchanged.
                let mut ry = Rng(seed ^ 0x0c10_7e9d_0000 ^ (i as u64).wrapping_mul(0x9e37_79b9_7f4a_7c15));
                let u = universe(m.as_bytes());
                for _ in 0..2 {
                    let t = crate::trace::gen_canonical_trace(&mut ry, &u);
                    out.push(format!("Y {}", hex(t.as_bytes())));
                }
            }
            corpus_queries(&mut out, &mut r, QuerySel { class: true, method: true, lines: true, params: true, all_lines: false, both_files: false }, b.thorough);
        }
        "C05" => return cases_c05(seed, tier),
        "C17" => return cases_c17(seed, tier),
        "C11" => {
            let b = budget(tier, 25, 600);
            for i in 0..b.mappings {
                let o = GenOpts { dom: Dom::Representable, max_classes: if b.thorough && i % 7 == 0 { 40 } else { 4 }, noise: false };
                let m = gen_mapping(&mut r, &o);
                if !representable(m.as_bytes()) {
                    continue;
                }
                let Some(full) = write_cache(m.as_bytes()) else { continue };
                if !b.thorough && full.len() > 2048 {
                    continue;
                }
                // reference: the full file and its answers
                let mut qs = Vec::new();
                emit_cache_queries(&mut qs, m.as_bytes(), &mut r, 3);
                out.push(format!("X {} =full", hex(&full)));
                out.extend(qs.iter().cloned());
                // every strict prefix (what a crash during writing can leave behind)
                for n in 0..full.len() {
                    let pre = &full[..n];
                    let accepted = guarded(|| {
                        let a = AlignedBuf::new(pre);
                        proguard::ProguardCache::parse(a.bytes()).is_ok()
                    })
                    .unwrap_or(true);
                    out.push(format!("X {} =prefix", hex(pre)));
                    if accepted {
                        out.extend(qs.iter().cloned());
                    }
                }
                // every single-field edit of the 24-byte header
                let rd = |i: usize| u32::from_le_bytes([full[i], full[i + 1], full[i + 2], full[i + 3]]);
                for field in 0..6 {
                    let cur = rd(4 * field);
                    for v in [0u32, cur.wrapping_sub(1), cur.wrapping_add(1), cur.wrapping_add(1000), 1 << 31, u32::MAX, cur.swap_bytes(),
                              cur ^ 0x0001_0000, cur ^ 0x0100_0000, cur | 0x8000_0000, cur ^ 0x0000_0100, cur.wrapping_add(0x0002_0000), cur ^ 0xffff_0000] {
                        if v == cur {
                            continue;
                        }
                        let mut e = full.clone();
                        e[4 * field..4 * field + 4].copy_from_slice(&v.to_le_bytes());
                        let tag = match field {
                            0 if v == cur.swap_bytes() => " =expect:WrongEndianness",
                            0 => " =expect:WrongFormat",
                            1 => " =expect:WrongVersion",
                            _ => "",
                        };
                        out.push(format!("X {}{}", hex(&e), tag));
                        out.extend(qs.iter().take(4).cloned());
                    }
                }
                // every permutation of the four magic bytes: only the full reversal is the other endianness
                {
                    let mg = [full[0], full[1], full[2], full[3]];
                    for a in 0..4usize {
                        for b2 in 0..4usize {
                            for c in 0..4usize {
                                for d in 0..4usize {
                                    let mut seen = [false; 4];
                                    for x in [a, b2, c, d] {
                                        seen[x] = true;
                                    }
                                    if seen != [true; 4] || [a, b2, c, d] == [0, 1, 2, 3] {
                                        continue;
                                    }
                                    let mut e = full.clone();
                                    e[0..4].copy_from_slice(&[mg[a], mg[b2], mg[c], mg[d]]);
                                    let tag = if [a, b2, c, d] == [3, 2, 1, 0] { " =expect:WrongEndianness" } else { " =expect:WrongFormat" };
                                    out.push(format!("X {}{}", hex(&e), tag));
                                }
                            }
                        }
                    }
                }
                // two-field edits: what a writer of the other endianness / another format would produce
                {
                    let mut e = full.clone();
                    for field in 0..6 {
                        let v = rd(4 * field).swap_bytes();
                        e[4 * field..4 * field + 4].copy_from_slice(&v.to_le_bytes());
                    }
                    out.push(format!("X {} =expect:WrongEndianness", hex(&e)));
                    let mut e = full.clone();
                    e[0..4].copy_from_slice(b"SYMC");
                    e[4..8].copy_from_slice(&8u32.to_le_bytes());
                    out.push(format!("X {} =expect:WrongFormat", hex(&e)));
                    let mut e = full.clone();
                    e[0..4].copy_from_slice(&rd(0).swap_bytes().to_le_bytes());
                    e[4..8].copy_from_slice(&7u32.to_le_bytes());
                    out.push(format!("X {} =expect:WrongEndianness", hex(&e)));
                }
            }
        }
        "C12" => {
            std_cases(&mut out, &mut r, &["HB", "HD", "HW"], if tier == "quick" { 300 } else { 8000 });
            fixed_shapes(&mut out, &mut r, true);
            fixed_shapes(&mut out, &mut r, false);
            let b = budget(tier, 400, 60000);
            for _ in 0..(if tier == "quick" { 3 } else { 30 }) {
                // VALID large caches: every query must answer without panic and correctly (search code on
                // big runs); asked through the mapping so that the answers are compared with the specification
                let m = gen_big_mapping(&mut r);
                out.push(format!("M {}", hex(m.as_bytes())));
                emit_big_queries(&mut out, m.as_bytes(), &mut r, QuerySel { class: true, method: true, lines: true, params: true, all_lines: false, both_files: false });
            }
            for i in 0..b.mappings {
                let m = gen_mapping(&mut r, &REP);
                let Some(full) = write_cache(m.as_bytes()) else { continue };
                let buf = if i % 9 == 0 {
                    // random bytes behind a valid header
                    let mut v = full[..24.min(full.len())].to_vec();
                    for _ in 0..r.below(200) {
                        v.push(r.below(256) as u8);
                    }
                    v
                } else {
                    corrupt(&mut r, &full)
                };
                out.push(format!("X {}", hex(&buf)));
                emit_cache_queries(&mut out, m.as_bytes(), &mut r, 3);
            }
        }
        "C13" => {
            fixed_shapes(&mut out, &mut r, false);
            let b = budget(tier, 250, 10000);
            for i in 0..b.mappings {
                let bytes = match i % 6 {
                    0 | 1 => gen_mapping(&mut r, &WILD).into_bytes(),
                    2 | 3 => { let g = gen_mapping(&mut r, &WILD); mutate(&mut r, &g) }
                    4 => soup(&mut r),
                    _ => raw_bytes(&mut r),
                };
                push_wild(&mut out, &bytes);
                out.push("I".into());
                out.push("D".into());
                out.push("W".into());
                let q = QuerySel { class: true, method: true, lines: true, params: true, all_lines: false, both_files: false };
                let mut qs = Vec::new();
                emit_queries(&mut qs, &bytes, &mut r, q);
                if qs.len() > 150 {
                    let step = qs.len() / 150 + 1;
                    qs = qs.into_iter().step_by(step).collect();
                }
                out.extend(qs);
                emit_text_queries(&mut out, &bytes, &mut r, 2, 1, 2);
                // single-line parsers on arbitrary bytes (invalid UTF-8 included)
                let raw = if i % 2 == 0 { raw_bytes(&mut r) } else { soup(&mut r) };
                out.push(format!("FR {}", hex(&[&b"  at "[..], &raw[..], &b")"[..]].concat())));
                out.push(format!("TH {}", hex(&raw)));
                out.push(format!("R {}", hex(&raw)));
            }
        }
        "C07" => {
            std_cases(&mut out, &mut r, &["HL", "HT", "HU"], if tier == "quick" { 200 } else { 5000 });
            let b = budget(tier, 250, 24000);
            for _ in 0..(if tier == "quick" { 2 } else { 10 }) {
                // large method groups: frames of the heavy classes through the text API
                let m = gen_big_mapping(&mut r);
                out.push(format!("M {}", hex(m.as_bytes())));
                let mut qs = Vec::new();
                emit_big_queries(&mut qs, m.as_bytes(), &mut r, QuerySel { class: false, method: false, lines: true, params: false, all_lines: false, both_files: false });
                let mut text = String::from("java.lang.RuntimeException: boom\n");
                let mut nlines = 0;
                let mut long_names = 0;
                for q in qs.iter().step_by(5) {
                    let t: Vec<&str> = q.split(' ').collect();
                    let (c, mth) = (String::from_utf8_lossy(&unhex(t[1])).to_string(), String::from_utf8_lossy(&unhex(t[2])).to_string());
                    // the text model is quadratic in the line length (13 s for a 16 KiB line): one very long name per mapping
                    if c.len() + mth.len() > 2000 {
                        long_names += 1;
                        if long_names > 1 {
                            continue;
                        }
                    }
                    text.push_str(&format!("    at {}.{}(SourceFile:{})\n", c, mth, t[3]));
                    nlines += 1;
                    if nlines % 40 == 0 {
                        out.push(format!("S {}", hex(text.as_bytes())));
                        text = String::from("Caused by: x.Y: z\n");
                    }
                }
                out.push(format!("S {}", hex(text.as_bytes())));
            }
            for i in 0..b.mappings {
                let m = gen_mapping(&mut r, &REP);
                if !representable(m.as_bytes()) {
                    continue;
                }
                push_mapping(&mut out, m.as_bytes());
                emit_text_queries(&mut out, m.as_bytes(), &mut r, 12, 0, 0);
                if i % 10 == 0 {
                    // a mapping that knows none of the trace's classes: output = input up to terminators
                    push_mapping(&mut out, b"zz.Q -> zz.q:\n    void f() -> g\n");
                    emit_text_queries(&mut out, m.as_bytes(), &mut r, 4, 0, 0);
                }
            }
        }
        "C08" => {
            let b = budget(tier, 250, 8000);
            for _ in 0..(if tier == "quick" { 1 } else { 6 }) {
                // classes with many member lines and inline groups, through the typed API
                let m = gen_big_mapping(&mut r);
                out.push(format!("M {}", hex(m.as_bytes())));
                let mut qs = Vec::new();
                emit_big_queries(&mut qs, m.as_bytes(), &mut r, QuerySel { class: false, method: false, lines: true, params: false, all_lines: false, both_files: false });
                let mut text = String::from("x.Unknown: boom\n");
                let mut n = 0;
                let mut long_names = 0;
                // frames of the classes with the most queries (the heavy classes) first, then a sample of the rest
                let mut per_class: std::collections::BTreeMap<String, usize> = std::collections::BTreeMap::new();
                for q in &qs {
                    *per_class.entry(q.split(' ').nth(1).unwrap_or("").to_string()).or_default() += 1;
                }
                let mut heavy: Vec<(String, usize)> = per_class.into_iter().collect();
                heavy.sort_by(|a, b| b.1.cmp(&a.1));
                let heavy: Vec<String> = heavy.into_iter().take(3).map(|x| x.0).collect();
                let mut chosen: Vec<&String> = qs.iter().filter(|q| heavy.iter().any(|h| q.split(' ').nth(1) == Some(h.as_str()))).step_by(3).take(90).collect();
                chosen.extend(qs.iter().step_by(16));
                for q in chosen {
                    let t: Vec<&str> = q.split(' ').collect();
                    let (c, mth) = (String::from_utf8_lossy(&unhex(t[1])).to_string(), String::from_utf8_lossy(&unhex(t[2])).to_string());
                    if c.chars().any(|x| x.is_whitespace() || x == '(' || x == ':') || mth.contains('.') {
                        continue;
                    }
                    if c.len() + mth.len() > 2000 {
                        long_names += 1;
                        if long_names > 1 {
                            continue;
                        }
                    }
                    text.push_str(&format!("    at {}.{}(SourceFile:{})\n", c, mth, t[3]));
                    n += 1;
                    if n % 45 == 0 {
                        out.push(format!("Y {}", hex(text.as_bytes())));
                        text = String::from("x.Unknown: again\n");
                    }
                }
                out.push(format!("Y {}", hex(text.as_bytes())));
            }
            for _ in 0..b.mappings {
                let m = gen_mapping(&mut r, &REP);
                if !representable(m.as_bytes()) {
                    continue;
                }
                push_mapping(&mut out, m.as_bytes());
                emit_text_queries(&mut out, m.as_bytes(), &mut r, 0, 12, 0);
            }
        }
        "C16" => {
            let b = budget(tier, 250, 24000);
            {
                let m = "com.example.Long -> x.Long:\ncom.example.A -> a:\ncom.example.B -> a.b:\nорг.Модель -> орг.пример.Модель:\nzhu.Zhu -> 主:\n";
                push_mapping(&mut out, m.as_bytes());
                for s in FIXED_SIGNATURES {
                    out.push(format!("G {}", hex(s.as_bytes())));
                }
            }
            {
                // bounded-exhaustive: every descriptor with at most 3 parameters over a 6-type alphabet and 3
                // return types, and (thorough: all, quick: a sample of) their single-character deletions / replacements
                let m = "com.example.Long -> x.Long:\ncom.example.A -> a:\n";
                push_mapping(&mut out, m.as_bytes());
                let alpha = ["I", "J", "La;", "Lx/Long;", "[I", "[[Lq/é;"];
                let rets = ["V", "I", "[La;"];
                let mut descs: Vec<String> = Vec::new();
                for n in 0..=3usize {
                    let total = 6usize.pow(n as u32);
                    for idx in 0..total {
                        let mut x = idx;
                        let mut ps = String::new();
                        for _ in 0..n {
                            ps.push_str(alpha[x % 6]);
                            x /= 6;
                        }
                        for ret in rets {
                            descs.push(format!("({}){}", ps, ret));
                        }
                    }
                }
                for d in &descs {
                    out.push(format!("G {}", hex(d.as_bytes())));
                }
                for d in &descs {
                    let chars: Vec<char> = d.chars().collect();
                    for pos in 0..chars.len() {
                        if !b.thorough && !r.chance(1, 12) {
                            continue;
                        }
                        let mut del = chars.clone();
                        del.remove(pos);
                        out.push(format!("G {}", hex(del.iter().collect::<String>().as_bytes())));
                        let mut rep = chars.clone();
                        rep[pos] = *r.pick(&['(', ')', ';', 'L', '[', 'V', 'x', 'é', '/']);
                        out.push(format!("G {}", hex(rep.iter().collect::<String>().as_bytes())));
                    }
                }
            }
            for _ in 0..b.mappings {
                let m = gen_mapping(&mut r, &REP);
                if !representable(m.as_bytes()) {
                    continue;
                }
                push_mapping(&mut out, m.as_bytes());
                emit_text_queries(&mut out, m.as_bytes(), &mut r, 0, 0, 25);
            }
        }
        _ => {}
    }
    out
}

/// a few large mappings per run (class counts / group sizes around powers of two, long strings)
/// descriptors that once separated a correct parser from a broken one (kept deterministic: every run asks them)
pub const FIXED_SIGNATURES: &[&str] = &[
    "", "(", ")", "()", "()V", "(L", "(La;", "(La;)", "(Lé", "(Lé)V", "(Iaé)V", "V", "(I)Lé;", "(I)L;", "(I)L", "([)V", "(é)é", "(I)[",
    "x(I)V", "(La/é)V", "(La/é", "(Lé/ü;I)V", "(Lé/ü;[Lx/y;J)[[Lé/ü;", "([[La/b;[La/b;La/b;)V", "(La/b;)La/b;", "([Lé;", "(Lé;I", "(JLa/b", "(I)Lé/ü",
    "(Lорг/пример/Модель;La/b;)I", "([[L主;J)V", "(L主;)L主;", "(É)V", "(I)Α", "(I)[ÉI", "(Ж)V", "(ĀI)V", "(I)É",
];

/// A hand-written mapping with the shapes that random pools hit only now and then (so that no run depends on
/// luck for them): a synthetic-class source file on a class whose name has `$` before its last `.`, the same
/// without package, a class without source file, an inline pair with an indented R8 comment in between, a
/// value-less sourceFile reset, overloads, a range-less entry, a foreign-class entry, names that end in
/// characters `str::trim` strips.
pub fn special_mapping() -> String {
    let mut m = String::new();
    m.push_str("com.acme.gen$1.Handler$$ExternalSyntheticLambda0 -> s.a:\n");
    m.push_str("# {\"id\":\"sourceFile\",\"fileName\":\"R8$$SyntheticClass\"}\n");
    m.push_str("    1:3:void run():10:12 -> m\n    void q(int) -> n\n    4:4:void com.acme.gen$v2.ui.Widget$$Lambda.call():7 -> m\n");
    m.push_str("Outer$Inner$$ExternalSyntheticLambda1 -> s.b:\n# {\"id\":\"sourceFile\",\"fileName\":\"R8$$SyntheticClass\"}\n    1:1:void f():5:5 -> m\n");
    m.push_str("com.example.MainActivity -> s.c:\n    1:3:void helper(int):20:22 -> x\n    # {\"id\":\"com.android.tools.r8.residualsignature\",\"signature\":\"()V\"}\n    1:3:void run(int):30 -> x\n");
    m.push_str("    5:9:void run(int,java.lang.String):100:104 -> x\n    void run() -> x\n    2:2:void other.Klass.ext():9:9 -> y\n");
    m.push_str("com.example.Files -> s.d:\n# {\"id\":\"sourceFile\",\"fileName\":\"Files.kt\"}\n    1:2:void a():3:4 -> m\n# sourceFile\n    3:4:void b():5:6 -> m\n");
    m.push_str("com.example.Trim\u{2028} -> s.e\u{85}:\n    void t() -> z\u{3000}");
    m
}
fn fixed_shapes(out: &mut Vec<String>, r: &mut Rng, as_buffer: bool) {
    let m = special_mapping();
    let h = |s: &str| hex(s.as_bytes());
    if as_buffer {
        // the valid cache of that mapping, queried as a buffer (C12)
        if let Some(full) = write_cache(m.as_bytes()) {
            out.push(format!("X {}", hex(&full)));
            let mut qs = Vec::new();
            emit_queries(&mut qs, m.as_bytes(), r, QuerySel { class: true, method: true, lines: true, params: true, all_lines: false, both_files: false });
            for q in qs {
                // K/T/L/P -> k/t/l/p
                let mut t: Vec<String> = q.split(' ').map(|x| x.to_string()).collect();
                t[0] = t[0].to_lowercase();
                out.push(t.join(" "));
            }
            for s in FIXED_SIGNATURES {
                out.push(format!("g {}", h(s)));
            }
        }
        return;
    }
    // strings whose length sits exactly at a LEB128 prefix boundary (128 = 2^7, 16384 = 2^14 and their neighbours)
    for n in [127usize, 128, 129, 16383, 16384, 16385, 16511, 16512] {
        let name = |c: char| c.to_string().repeat(n);
        let lm = format!("{} -> {}:\n    1:2:void {}({}):5:6 -> {}\n", name('o'), name('k'), name('m'), name('t'), name('f'));
        push_mapping(out, lm.as_bytes());
        out.push(format!("K {}", h(&name('k'))));
        out.push(format!("T {} {}", h(&name('k')), h(&name('f'))));
        out.push(format!("L {} {} 1 ~", h(&name('k')), h(&name('f'))));
        out.push(format!("P {} {} {}", h(&name('k')), h(&name('f')), h(&name('t'))));
    }
    push_mapping(out, m.as_bytes());
    emit_queries(out, m.as_bytes(), r, QuerySel { class: true, method: true, lines: true, params: true, all_lines: false, both_files: true });
    for (c, mth) in [("s.a", "m"), ("s.b", "m"), ("s.c", "x"), ("s.d", "m")] {
        for l in [0usize, 1, 2, 3, 4, 5] {
            out.push(format!("L {} {} {} {}", h(c), h(mth), l, h("R8$$SyntheticClass")));
        }
    }
    for s in FIXED_SIGNATURES {
        out.push(format!("G {}", h(s)));
    }
    out.push(format!("S {}", h("s.a: boom\n    at s.a.m(SourceFile:2)\n\tat s.c.x(Foo.java:2)  \nCaused by: s.b: x\n    at s.b.m(R8$$SyntheticClass:1)\nCaused By: s.a: y\n    at s.c.x(Worker (1).java:6)\n")));
    out.push(format!("Y {}", h("s.a: boom\n    at s.a.m(SourceFile:2)\n    at s.c.x(Foo.java:2)\nCaused by: s.b: x\n    at s.b.m(R8$$SyntheticClass:1)\n")));
    out.push(format!(
        "YA e:{}:~ p:{}:{}:{} p:{}:{}:{} f:{}:{}:~:0 p:{}:{}:{} f:{}:{}:{}:2 c e:{}:{} f:{}:{}:{}:1",
        h("s.a"), h("s.c"), h("x"), h("int"), h("s.c"), h("x"), h("int,java.lang.String"), h("s.c"), h("x"), h("s.c"), h("x"), h(""),
        h("s.a"), h("m"), h("R8$$SyntheticClass"), h("s.b"), h("m"), h("s.b"), h("m"), h("F.java")
    ));
    // second fixed mapping (own generator state, so that the random stream of the cases after it is unchanged):
    // synthetic-class source file on classes whose last segment starts with `$`, has no package, is `$` only
    {
        let mut m2 = String::new();
        m2.push_str("com.example.$Proxy0 -> s.f:\n# {\"id\":\"sourceFile\",\"fileName\":\"R8$$SyntheticClass\"}\n    1:3:void run():10:12 -> m\n");
        m2.push_str("$Top -> s.g:\n# {\"id\":\"sourceFile\",\"fileName\":\"R8$$SyntheticClass\"}\n    1:3:void run():10:12 -> m\n    4:4:void pkg.$$Lambda$1.call():7 -> m\n    5:5:void pkg.sub.$.call():8 -> m\n");
        m2.push_str("com.example.Outer$Inner -> s.h:\n# {\"id\":\"sourceFile\",\"fileName\":\"R8$$SyntheticClass\"}\n    1:3:void run():10:12 -> m\n");
        let mut r2 = Rng(0x5eed_5eed);
        push_mapping(out, m2.as_bytes());
        emit_queries(out, m2.as_bytes(), &mut r2, QuerySel { class: true, method: true, lines: true, params: true, all_lines: false, both_files: true });
        for c in ["s.f", "s.g", "s.h"] {
            for l in [0usize, 1, 2, 3, 4, 5, 6] {
                out.push(format!("L {} {} {} {}", h(c), h("m"), l, h("R8$$SyntheticClass")));
                out.push(format!("L {} {} {} ~", h(c), h("m"), l));
            }
        }
        out.push(format!("S {}", h("x.Y: boom\n    at s.f.m(SourceFile:2)\n    at s.g.m(SourceFile:4)\n    at s.g.m(SourceFile:5)\nCaused by: s.h: x\n    at s.h.m(R8$$SyntheticClass:1)\n")));
        out.push(format!("Y {}", h("x.Y: boom\n    at s.f.m(SourceFile:2)\n    at s.g.m(SourceFile:4)\n    at s.g.m(SourceFile:5)\nCaused by: s.h: x\n    at s.h.m(R8$$SyntheticClass:1)\n")));
    }
}

/// huge structure (thorough tier): more than 65536 classes, more than 65536 members with distinct names in one
/// class, more than 65536 entries under one name.  The model answers with the specification only.
fn huge_cases(out: &mut Vec<String>, r: &mut Rng) {
    let n = 70_001usize;
    let idx = [0usize, 1, 9, 10, 32767, 32768, 65534, 65535, 65536, 65537, 69_999, 70_000];
    let h = |s: &str| hex(s.as_bytes());
    // A: many classes
    let mut a = String::new();
    for i in 0..n {
        a.push_str(&format!("p.K{} -> k{}:\n    1:2:void m{}():5:6 -> f\n", i, i, i));
    }
    out.push(format!("M {}", hex(a.as_bytes())));
    // (the specification's `blocks` is quadratic in the number of class blocks: ~100 s per query here, so
    //  three queries go to the model, the rest compare mapper with cache only)
    out.push(format!("K {}", h("k65536")));
    out.push(format!("T {} {}", h("k65535"), h("f")));
    out.push(format!("L {} {} 1 ~", h("k70000"), h("f")));
    for &i in idx.iter().chain([70_001usize].iter()) {
        out.push(format!("KI {}", h(&format!("k{}", i))));
        out.push(format!("TI {} {}", h(&format!("k{}", i)), h("f")));
        out.push(format!("LI {} {} {} ~", h(&format!("k{}", i)), h("f"), 1 + r.below(2)));
        out.push(format!("PI {} {} {}", h(&format!("k{}", i)), h("f"), h("")));
    }
    // B: one class, many distinct member names
    let mut b = String::from("p.Big -> b:\n");
    for i in 0..n {
        b.push_str(&format!("    {}:{}:void m{}():7 -> f{}\n", 1 + i % 3, 4 + i % 3, i, i));
    }
    out.push(format!("M {}", hex(b.as_bytes())));
    for &i in idx.iter().chain([70_001usize].iter()) {
        out.push(format!("T {} {}", h("b"), h(&format!("f{}", i))));
        out.push(format!("L {} {} {} ~", h("b"), h(&format!("f{}", i)), 2 + r.below(3)));
        out.push(format!("P {} {} {}", h("b"), h(&format!("f{}", i)), h("")));
    }
    // C: one class, one name, many entries with one-line ranges; 300 distinct originals
    let mut c = String::from("p.Big -> b:\n");
    for i in 0..n {
        c.push_str(&format!("    {}:{}:void m{}():{} -> f\n", i + 1, i + 1, i % 300, 100 + i));
    }
    out.push(format!("M {}", hex(c.as_bytes())));
    out.push(format!("T {} {}", h("b"), h("f")));
    for &i in idx.iter().chain([70_001usize, 70_002].iter()) {
        out.push(format!("L {} {} {} ~", h("b"), h("f"), i));
    }
    out.push(format!("P {} {} {}", h("b"), h("f"), h("")));
}

fn big_cases(out: &mut Vec<String>, r: &mut Rng, q: QuerySel, n: usize, with_bytes: bool) {
    for _ in 0..n {
        let m = gen_big_mapping(r);
        out.push(format!("M {}", hex(m.as_bytes())));
        if with_bytes {
            out.push("W".into());
        }
        emit_big_queries(out, m.as_bytes(), r, q);
    }
}

/// is the mapping inside the representable domain of the cache (non-empty names and
/// sourceFile values, numbers < 2^32-1)?  Decided on the records the implementation yields.
pub fn representable(mapping: &[u8]) -> bool {
    use proguard::*;
    let items: Vec<_> = match guarded(|| ProguardMapping::new(mapping).iter().collect::<Vec<_>>()) {
        Some(v) => v,
        None => return false,
    };
    let small = |x: usize| x < u32::MAX as usize;
    for it in items {
        match it {
            Ok(ProguardRecord::Class { original, obfuscated }) => {
                if original.is_empty() || obfuscated.is_empty() {
                    return false;
                }
            }
            Ok(ProguardRecord::Header { key, value }) => {
                if key == "sourceFile" && value == Some("") {
                    return false;
                }
            }
            Ok(ProguardRecord::Method { original, obfuscated, original_class, line_mapping, .. }) => {
                if original.is_empty() || obfuscated.is_empty() || original_class == Some("") {
                    return false;
                }
                if let Some(lm) = line_mapping {
                    if !small(lm.startline) || !small(lm.endline) {
                        return false;
                    }
                    if !lm.original_startline.map_or(true, small) || !lm.original_endline.map_or(true, small) {
                        return false;
                    }
                }
            }
            _ => {}
        }
    }
    true
}

/// record-preserving rewrites of a mapping: other line terminators, blank and unparseable
/// lines in between (C01: the answer must not depend on them)
pub fn variants(r: &mut Rng, m: &str) -> Vec<String> {
    let lines: Vec<&str> = m.split(|c| c == '\n' || c == '\r').filter(|l| !l.is_empty()).collect();
    let mut v = Vec::new();
    for nl in ["\n", "\r\n", "\r"] {
        let mut s = String::new();
        for l in &lines {
            if r.chance(1, 6) {
                s.push_str(nl);
            }
            if r.chance(1, 8) {
                s.push_str("this line is not a record");
                s.push_str(nl);
            }
            s.push_str(l);
            s.push_str(nl);
        }
        v.push(s);
    }
    v
}

fn corpus_queries(out: &mut Vec<String>, r: &mut Rng, q: QuerySel, thorough: bool) {
    for (name, bytes) in corpus_files() {
        // the 2.3 MB R8 file only in the thorough tier
        if bytes.len() > 400_000 && !thorough {
            continue;
        }
        let _ = name;
        push_mapping(out, &bytes);
        let mut qs = Vec::new();
        emit_queries(&mut qs, &bytes, r, q);
        // sample: corpus files have thousands of methods
        let cap = if thorough { 20000 } else { 1500 };
        if qs.len() > cap {
            let step = qs.len() / cap + 1;
            let off = r.below(step);
            qs = qs.into_iter().skip(off).step_by(step).collect();
        }
        out.extend(qs);
    }
}

/// files for the metadata scans (C19): position dependent shapes
fn metadata_file(r: &mut Rng) -> Vec<u8> {
    let nl = *r.pick(&["\n", "\r\n"]);
    let mut s = String::new();
    match if r.chance(1, 12) { r.below(4) } else { 99 } {
        0 | 1 if r.chance(1, 12) => {
            // the first 50 items span far more than 64 KiB
            let n = 40 + r.below(10);
            for i in 0..n {
                s.push_str(&format!("# c{}: {}{}", i, "v".repeat(1400 + r.below(300)), nl));
            }
            s.push_str(&format!("com.A -> a:{}    1:2:void m():3:4 -> b{}", nl, nl));
            return s.into_bytes();
        }
        2 => {
            // records that do not start a physical line: the class / sourceFile record ends at ':' / '"}'
            s.push_str(&format!("com.example.Foo -> a:    1:5:void run():10:14 -> b{}", nl));
            return s.into_bytes();
        }
        3 => {
            s.push_str(&format!("com.A -> a:{}# {{\"id\":\"sourceFile\",\"fileName\":\"F.kt\"}}    7:8:void g():1:2 -> c{}", nl, nl));
            return s.into_bytes();
        }
        _ => {}
    }
    let noise = match r.below(6) {
        0 => 49,
        1 => 50,
        2 => 51,
        3 => 48,
        _ => r.below(60),
    };
    let hdrs = ["# compiler: R8", "# compiler: D8", "# compiler_version: 1.2.3", "# compiler_version", "# min_api: 21", "# min_api: x", "# min_api: 4294967296", "# min_api: +7", "# min_api", "# compiler:", "# pg_map_id: abc",
        "# Compiler: javac 17", "# MIN_API: 33", "# Compiler_Version: 9", "# COMPILER: X", "# min_api:\u{2003}21", "# compiler_version:\u{a0}8.1.56", "#\u{3000}compiler: Z", "# min_api: 000000000000000000021", "# min_api:\u{b}5"];
    for _ in 0..r.below(5) {
        s.push_str(*r.pick(&hdrs));
        s.push_str(nl);
    }
    let kind = r.below(4);
    for i in 0..noise {
        match kind {
            0 => s.push_str("noise"),
            1 => s.push_str(&format!("# c{}: v", i)),
            2 => s.push_str(&format!("    int f{} -> a", i)),
            _ => s.push_str(if i % 2 == 0 { "???" } else { "# x" }),
        }
        s.push_str(nl);
    }
    if r.chance(4, 5) {
        s.push_str("com.A -> a:");
        s.push_str(nl);
    }
    for _ in 0..r.below(3) {
        s.push_str("not a record");
        s.push_str(nl);
    }
    if r.chance(1, 6) {
        // zero-padded line numbers (more digits than usize::MAX has) are numbers
        s.push_str(&format!("    {}:{}:void zp():{} -> z{}", "000000000000000000007", "0000000000000000000000009", "00000000000000000000011", nl));
    }
    let unmapped = if r.chance(1, 4) { 200 + r.below(3000) } else { r.below(6) };
    for i in 0..unmapped {
        s.push_str(&format!("    void m{}() -> x{}", i % 7, nl));
    }
    if r.chance(1, 2) {
        s.push_str("oops");
        s.push_str(nl);
    }
    match r.below(5) {
        0 => s.push_str(&format!("    1:2:void last():3:4 -> z")), // last line, no newline
        1 => s.push_str(&format!("    1:2:void last():3:4 -> z{}", nl)),
        2 => s.push_str(&format!("    0:2:void zero() -> z{}", nl)),
        3 => s.push_str(&format!("    int field -> z{}", nl)),
        _ => {}
    }
    for _ in 0..r.below(3) {
        s.push_str(*r.pick(&hdrs));
        s.push_str(nl);
    }
    s.into_bytes()
}

/// text traces, typed traces and signatures over the universe of a mapping
pub fn emit_text_queries(out: &mut Vec<String>, mapping: &[u8], r: &mut Rng, n_text: usize, n_typed: usize, n_sig: usize) {
    let u = universe(mapping);
    for _ in 0..n_text {
        let t = crate::trace::gen_text(r, &u);
        out.push(format!("S {}", hex(t.as_bytes())));
    }
    for _ in 0..n_typed {
        let t = crate::trace::gen_canonical_trace(r, &u);
        out.push(format!("Y {}", hex(t.as_bytes())));
        // the same API on traces built through the constructors (frames by parameters included)
        let a = crate::trace::gen_typed_ast(r, &u);
        out.push(format!("YA {}", a).trim_end().to_string());
    }
    for _ in 0..n_sig {
        let s = crate::trace::gen_signature(r, &u);
        out.push(format!("G {}", hex(s.as_bytes())));
    }
}

// ---------------------------------------------------------------- C05: lines from the grammar
/// a long identifier (scan windows, buffer sizes): 500..1500 bytes
fn long_ident(r: &mut Rng) -> String {
    let n = *r.pick(&[511usize, 512, 513, 600, 1000, 1023, 1024, 1500]);
    let mut s = String::with_capacity(n);
    for i in 0..n {
        s.push((b'a' + ((i * 7 + n) % 26) as u8) as char);
    }
    s
}
const IDENT: &[&str] = &["a", "foo", "Foo$Bar", "<init>", "<clinit>", "a-b", "x1", "é", "Üx", "lambda$x$0", "access$100", "_", "A9", "ö$1"];
const TYIDENT: &[&str] = &["void", "int", "java.lang.String", "a.b[]", "boolean", "int[][]", "é.X", "a$b", "java.util.Map$Entry", "x-y"];
const PKG: &[&str] = &["com.example", "a.b", "é", "org.x.y", "a"];

fn dec40(r: &mut Rng) -> u64 {
    match r.below(8) {
        0 => 0,
        1 => 1,
        2 => (1u64 << 40) - 1,
        3 => (1u64 << 32) + r.below(5) as u64,
        _ => r.below(3000) as u64,
    }
}

/// one grammar line, its expected canonical record, and its kind
fn grammar_line(r: &mut Rng) -> (String, String) {
    match r.below(10) {
        0 => {
            // key/value header
            let key = *r.pick(&["compiler", "compiler_version", "min_api", "pg_map_id", "common_typos_disable", "x-y"]);
            if r.chance(1, 3) {
                (format!("# {}", key), format!("H|{}|~", hex(key.as_bytes())))
            } else {
                let v = *r.pick(&["R8", "8.3.37", "24", "abc def", "a:b", "é"]);
                (format!("# {}: {}", key, v), format!("H|{}|{}", hex(key.as_bytes()), hex(v.as_bytes())))
            }
        }
        1 => {
            let f = *r.pick(&["Foo.kt", "R8$$SyntheticClass", "a b.java", "é.kt", ""]);
            (format!("# {{\"id\":\"sourceFile\",\"fileName\":\"{}\"}}", f), format!("H|{}|{}", hex(b"sourceFile"), hex(f.as_bytes())))
        }
        2 | 3 => {
            let o = format!("{}.{}", r.pick(PKG), r.pick(IDENT));
            let b = format!("{}.{}", r.pick(&["a", "a.b", "é"]), r.pick(&["a", "b", "c$d", "ö"]));
            (format!("{} -> {}:", o, b), format!("C|{}|{}", hex(o.as_bytes()), hex(b.as_bytes())))
        }
        4 => {
            let (t, n, b) = (*r.pick(TYIDENT), *r.pick(IDENT), *r.pick(IDENT));
            (format!("    {} {} -> {}", t, n, b), format!("F|{}|{}|{}", hex(t.as_bytes()), hex(n.as_bytes()), hex(b.as_bytes())))
        }
        _ => {
            let (t, n, b) = (*r.pick(TYIDENT), *r.pick(IDENT), *r.pick(IDENT));
            let args = *r.pick(&["", "int", "int,java.lang.String", "a.b[],é", "java.util.Map$Entry"]);
            let cls = if r.chance(1, 3) { Some(format!("{}.{}", r.pick(PKG), r.pick(&["Outer", "Outer$Inner", "É"]))) } else { None };
            let lines = if r.chance(2, 3) { Some((dec40(r), dec40(r))) } else { None };
            let ol = match r.below(3) {
                0 => (None, None),
                1 => (Some(dec40(r)), None),
                _ => (Some(dec40(r)), Some(dec40(r))),
            };
            let mut s = String::from("    ");
            if let Some((a, b)) = lines {
                s.push_str(&format!("{}:{}:", a, b));
            }
            s.push_str(t);
            s.push(' ');
            if let Some(c) = &cls {
                s.push_str(c);
                s.push('.');
            }
            s.push_str(n);
            s.push_str(&format!("({})", args));
            if let Some(x) = ol.0 {
                s.push_str(&format!(":{}", x));
            }
            if let Some(x) = ol.1 {
                s.push_str(&format!(":{}", x));
            }
            s.push_str(" -> ");
            s.push_str(b);
            let lm = match lines {
                Some((a, e)) if a > 0 && e > 0 => format!(
                    "{},{},{},{}",
                    a,
                    e,
                    ol.0.map_or("~".into(), |x| x.to_string()),
                    ol.1.map_or("~".into(), |x| x.to_string())
                ),
                _ => "~".into(),
            };
            let exp = format!(
                "M|{}|{}|{}|{}|{}|{}",
                hex(t.as_bytes()),
                hex(n.as_bytes()),
                hex(b.as_bytes()),
                hex(args.as_bytes()),
                cls.as_ref().map_or("~".into(), |c| hex(c.as_bytes())),
                lm
            );
            (s, exp)
        }
    }
}

/// the documented malformations of a well-formed class / member line
fn malform(r: &mut Rng, line: &str) -> Option<String> {
    if line.starts_with('#') {
        return None;
    }
    if !line.starts_with("    ") {
        // class line
        return Some(match r.below(3) {
            0 => line.trim_end_matches(':').to_string(),        // missing colon
            1 => line.replacen(" -> ", "->", 1),                // unspaced arrow
            _ => line.replacen(" -> ", " ", 1),                 // missing arrow
        });
    }
    let body = &line[4..];
    Some(match r.below(5) {
        0 => format!("  {}", body),                             // two spaces
        1 => format!("     {}", body).replacen("     ", "   ", 1), // three spaces
        2 => body.replacen(" -> ", "->", 1).to_string().replacen("", "    ", 1), // unspaced arrow
        3 => {
            // start line without end line
            let rest = body.trim_start_matches(|c: char| c.is_ascii_digit() || c == ':');
            format!("    7:{}", rest)
        }
        _ => {
            // missing return type: drop the type token of a method line
            let rest = body.trim_start_matches(|c: char| c.is_ascii_digit() || c == ':');
            match rest.split_once(' ') {
                Some((_, tail)) if tail.contains('(') => format!("    {}", tail),
                _ => return None,
            }
        }
    })
}

pub fn cases_c05(seed: u64, tier: &str) -> Vec<String> {
    let mut r = Rng(seed ^ 0xc05);
    let b = budget(tier, 4000, 150000);
    let mut out = Vec::new();
    for i in 0..b.mappings {
        let (mut line, mut exp) = grammar_line(&mut r);
        if i % 23 == 7 {
            // the same line with one very long component
            let long = long_ident(&mut r);
            match r.below(3) {
                0 => {
                    line = format!("{} -> b:", long);
                    exp = format!("C|{}|{}", hex(long.as_bytes()), hex(b"b"));
                }
                1 => {
                    line = format!("    void f({}) -> {}", long, long);
                    exp = format!("M|{}|{}|{}|{}|~|~", hex(b"void"), hex(b"f"), hex(long.as_bytes()), hex(long.as_bytes()));
                }
                _ => {
                    line = format!("# k: {}", long);
                    exp = format!("H|{}|{}", hex(b"k"), hex(long.as_bytes()));
                }
            }
        }
        let term = *r.pick(&["", "\n", "\r\n", "\n\n"]);
        out.push(format!("R {} ={}", hex(format!("{}{}", line, term).as_bytes()), exp));
        if i % 3 == 0 {
            if let Some(bad) = malform(&mut r, &line) {
                // an error carries the offending line (the input has no terminator here)
                out.push(format!("R {} =E|{}", hex(bad.as_bytes()), hex(bad.as_bytes())));
            }
        }
        if i % 4 == 0 {
            // as part of a file, with neighbours
            let (l2, _) = grammar_line(&mut r);
            let (l3, _) = grammar_line(&mut r);
            let nl = *r.pick(&["\n", "\r\n", "\r"]);
            // blank lines between the records (they are no records; the iterator adapters must skip them too)
            let gap = |r: &mut Rng| nl.repeat(1 + if r.chance(1, 3) { 1 + r.below(3) } else { 0 });
            let file = format!("{}{}{}{}{}{}", l2, gap(&mut r), line, gap(&mut r), l3, if r.chance(1, 2) { nl } else { "" });
            out.push(format!("M {}", hex(file.as_bytes())));
            out.push(format!("I ={}", exp));
        }
    }
    for l in [
        "# compiler_version:\u{a0}8.1.56", "# min_api:\u{2003}21", "#\u{3000}key\u{3000}:\u{2028}v\u{85}", "# k:\u{b}v\u{c}", "#\u{a0}{\"id\":\"sourceFile\",\"fileName\":\"F.kt\"}",
        "    000000000000000000007:0000000000000000000000009:void zp():00000000000000000000011 -> z", "    1:2:void zp():000000000000000000000000000003:4 -> z",
        "    18446744073709551615:018446744073709551615:void f() -> g", "# {\"id\":\"sourceFile\",\"fileName\":\"a\\\"b\"}", "# {\"id\":\"sourceFile\",\"fileName\":\"abc\\",
    ] {
        for term in ["", "\n", "\r\n"] {
            out.push(format!("R {}", hex(format!("{}{}", l, term).as_bytes())));
        }
    }
    for k in 0..(if b.thorough { 6 } else { 2 }) {
        // a long run of unparseable lines must not make the parser give up on the lines after it
        let n = *r.pick(&[999usize, 1000, 1001, 1500]) + k;
        let nl = *r.pick(&["\n", "\r\n"]);
        let mut f = String::new();
        for i in 0..n {
            f.push_str(&format!("noise {}{}", i, nl));
        }
        f.push_str(&format!("com.A -> a:{}    int f -> g{}    1:2:void m():3:4 -> h{}", nl, nl, nl));
        out.push(format!("M {}", hex(f.as_bytes())));
        out.push(format!("I =M|{}|{}|{}|{}|~|1,2,3,4", hex(b"void"), hex(b"m"), hex(b"h"), hex(b"")));
    }
    {
        // bounded-exhaustive: all lines of at most 6 tokens over a 12-token alphabet
        let total = crate::run::sweep_total(12, 6);
        let blocks = (total + crate::run::SWEEP_BLOCK - 1) / crate::run::SWEEP_BLOCK;
        if b.thorough {
            for blk in 0..blocks {
                out.push(format!("E5 {}", blk));
            }
        } else {
            for _ in 0..40 {
                out.push(format!("E5 {}", r.below(blocks as usize)));
            }
        }
    }
    // every line of the real-world corpus
    for (_, bytes) in corpus_files() {
        let text = String::from_utf8_lossy(&bytes).to_string();
        let cap = if b.thorough { usize::MAX } else { 3000 };
        for l in text.lines().take(cap) {
            out.push(format!("R {}", hex(l.as_bytes())));
        }
    }
    out
}

// ---------------------------------------------------------------- C17: trace ASTs
const T_CLASS: &[&str] = &["java.lang.RuntimeException", "a.b.C", "a$b", "é.Ü", "x", "com.example.Foo$1", "A-B", "<X>", "\u{feff}Bom", "😀.E", "\u{ff21}", "com.example.Odd\tName", "a\u{b}b", "q\u{a0}r"];
const T_MSG: &[&str] = &["boom", "Crash: again", "Caused by: inner", "at x.y(z:1)", "a: b: c", "é ü", "(", ")", ":", "    at a.b(c:1)", "x\ty"];
const T_METH: &[&str] = &["m", "<init>", "<clinit>", "run", "é", "a$1", "lambda$x$0", "access$100"];
const T_FILE: &[&str] = &["SourceFile", "Foo.java", "<unknown>", "é.kt", "a b", "x(y)", "", "Main(1).java", "B (copy).java", "a)b("];

pub fn cases_c17(seed: u64, tier: &str) -> Vec<String> {
    let mut r = Rng(seed ^ 0xc17);
    let b = budget(tier, 3000, 120000);
    let mut out = Vec::new();
    for _ in 0..b.mappings {
        let depth = r.below(5);
        let mut toks: Vec<String> = Vec::new();
        let mut prev_tail: Vec<String> = Vec::new();
        for d in 0..=depth {
            if d > 0 {
                toks.push("c".into());
            }
            let has_exc = d > 0 || r.chance(3, 4);
            if has_exc {
                let c = *r.pick(T_CLASS);
                let m = if r.chance(1, 2) { hex(r.pick(T_MSG).as_bytes()) } else { "~".into() };
                toks.push(format!("e:{}:{}", hex(c.as_bytes()), m));
            }
            let cap = if r.chance(1, 12) { 21 } else { 4 };
            let nf = if d == 0 && !has_exc { 1 + r.below(cap) } else { r.below(cap) };
            for _ in 0..nf {
                let line = match r.below(8) {
                    0 => 0u64,
                    1 => u64::MAX,
                    2 => 1 << 32,
                    6 => 10_000_000_000_000_000_000u64 + (r.next() % 8_446_744_073_709_551_615u64),
                    7 => u64::MAX - r.below(10) as u64,
                    _ => r.below(5000) as u64,
                };
                toks.push(format!(
                    "f:{}:{}:{}:{}",
                    hex(r.pick(T_CLASS).as_bytes()),
                    hex(r.pick(T_METH).as_bytes()),
                    hex(r.pick(T_FILE).as_bytes()),
                    line
                ));
            }
            // Java traces share their trailing frames with the enclosing trace: repeat the parent's last frames
            if d > 0 && !prev_tail.is_empty() && r.chance(1, 2) {
                let k = 1 + r.below(prev_tail.len());
                for t in &prev_tail[prev_tail.len() - k..] {
                    toks.push(t.clone());
                }
            }
            prev_tail = toks.iter().rev().take_while(|t| t.starts_with("f:")).take(3).cloned().collect::<Vec<_>>();
            prev_tail.reverse();
        }
        out.push(format!("A {}", toks.join(" ")));
    }
    // single frames and throwables
    for _ in 0..b.mappings / 4 {
        let f = format!(
            "at {}.{}({}:{})",
            r.pick(T_CLASS),
            r.pick(T_METH),
            r.pick(T_FILE),
            *r.pick(&[0u64, 1, 77, u64::MAX])
        );
        out.push(format!("FR {}", hex(f.as_bytes())));
        let t = if r.chance(1, 2) { format!("{}: {}", r.pick(T_CLASS), r.pick(T_MSG)) } else { r.pick(T_CLASS).to_string() };
        out.push(format!("TH {}", hex(t.as_bytes())));
    }
    out
}

// ---------------------------------------------------------------- std / dependency semantics written into the model
const WS_PIECES: &[&str] = &[" ", "\t", "\n", "\r", "\u{b}", "\u{c}", "\u{85}", "\u{a0}", "\u{1680}", "\u{2000}", "\u{2003}", "\u{200a}",
    "\u{2028}", "\u{2029}", "\u{202f}", "\u{205f}", "\u{3000}", "\u{200b}", "\u{feff}", "\u{180e}", "a", "é", "😀", ":", "x y"];

fn utf8ish(r: &mut Rng) -> Vec<u8> {
    let mut b = Vec::new();
    for _ in 0..r.below(7) {
        b.extend_from_slice(r.pick(WS_PIECES).as_bytes());
    }
    if r.chance(1, 4) && !b.is_empty() {
        // damage: overlongs, surrogates, truncated sequences, stray continuation bytes
        let pos = r.below(b.len());
        let bad: &[u8] = *r.pick(&[&[0xc0, 0x80][..], &[0xed, 0xa0, 0x80], &[0xf4, 0x90, 0x80, 0x80], &[0xe2, 0x80], &[0x80], &[0xff], &[0xf0, 0x9f]]);
        for (k, x) in bad.iter().enumerate() {
            b.insert(pos + k, *x);
        }
    }
    b
}

pub fn std_cases(out: &mut Vec<String>, r: &mut Rng, kinds: &[&str], n: usize) {
    for _ in 0..n {
        for k in kinds {
            match *k {
                "HU" | "HT" | "HL" => out.push(format!("{} {}", k, hex(&utf8ish(r)))),
                "HC" => {
                    let a = utf8ish(r);
                    let mut b = if r.chance(1, 3) { a.clone() } else { utf8ish(r) };
                    if r.chance(1, 4) {
                        b.push(r.below(256) as u8);
                    }
                    out.push(format!("HC {} {}", hex(&a), hex(&b)));
                }
                "HP" => {
                    let s: &str = *r.pick(&["0", "7", "+7", "-7", "", "+", "007", "4294967295", "4294967296", "18446744073709551615",
                        "18446744073709551616", "99999999999999999999", "1_0", " 1", "1 ", "٣", "１", "0x10", "1e3", "+0", "++1"]);
                    out.push(format!("HP {}", hex(s.as_bytes())));
                }
                "HN" => {
                    let b: Vec<u8> = (0..16).map(|_| r.below(256) as u8).collect();
                    out.push(format!("HN {}", hex(&b)));
                }
                "HB" => {
                    let len = *r.pick(&[0usize, 1, 2, 3, 4, 5, 7, 8, 9, 15, 16, 17, 31, 32, 33, 64, 100]);
                    let mut l: Vec<u8> = (0..len).map(|_| r.below(12) as u8).collect();
                    if r.chance(2, 3) {
                        l.sort();
                    }
                    out.push(format!("HB {} {}", hex(&[r.below(12) as u8]), hex(&l)));
                }
                "HE" => {
                    let v = *r.pick(&[0u64, 1, 127, 128, 129, 16383, 16384, 16385, 2097151, 2097152, u32::MAX as u64, 1 << 32, u64::MAX - 1, u64::MAX]);
                    out.push(format!("HE {}", if r.chance(1, 2) { v } else { r.next() >> r.below(64) }));
                }
                "HD" => {
                    let mut b: Vec<u8> = (0..r.below(12)).map(|_| if r.chance(2, 3) { 0x80 | r.below(128) as u8 } else { r.below(128) as u8 }).collect();
                    if r.chance(1, 5) {
                        b = vec![0xff, 0xff, 0xff, 0xff, 0xff, 0xff, 0xff, 0xff, 0xff, r.below(4) as u8, 7];
                    }
                    out.push(format!("HD {}", hex(&b)));
                }
                "HW" => {
                    let pool = ["a", "bc", "", "a", "é", &"z".repeat(127), &"y".repeat(128), &"w".repeat(200), "bc"];
                    let toks: Vec<String> = (0..1 + r.below(7)).map(|_| hex(r.pick(&pool).as_bytes())).collect();
                    out.push(format!("HW {}", toks.join(" ")));
                }
                _ => {}
            }
        }
    }
}
