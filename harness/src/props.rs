//! Per-property case lists.
use crate::gen::*;
use crate::util::*;

pub struct Budget {
    pub mappings: usize,
    pub thorough: bool,
}
pub fn budget(tier: &str, quick: usize, thorough: usize) -> Budget {
    if tier == "thorough" {
        Budget { mappings: thorough, thorough: true }
    } else {
        Budget { mappings: quick, thorough: false }
    }
}

fn push_mapping(out: &mut Vec<String>, m: &[u8]) {
    out.push(format!("M {}", hex(m)));
}

const REP: GenOpts = GenOpts { dom: Dom::Representable, max_classes: 5, noise: true };
const WILD: GenOpts = GenOpts { dom: Dom::Wild, max_classes: 4, noise: true };

/// corpus/<id>/*.cases files are prepended by the runner; here only generated cases.
pub fn cases(prop: &str, seed: u64, tier: &str) -> Vec<String> {
    let mut r = Rng(seed ^ 0x5eed_0000 ^ (prop.bytes().fold(0u64, |a, b| a.wrapping_mul(131).wrapping_add(b as u64))));
    let mut out = Vec::new();
    match prop {
        "C01" => {
            let b = budget(tier, 120, 4000);
            for i in 0..b.mappings {
                let m = gen_mapping(&mut r, &REP);
                if !representable(m.as_bytes()) {
                    continue;
                }
                push_mapping(&mut out, m.as_bytes());
                let q = QuerySel { class: false, method: false, lines: true, params: false, all_lines: b.thorough && i % 4 == 0, both_files: b.thorough };
                emit_queries(&mut out, m.as_bytes(), &mut r, q);
                // metamorphic variants: same records, other line endings / extra noise
                if i % 3 == 0 {
                    for v in variants(&mut r, &m) {
                        push_mapping(&mut out, v.as_bytes());
                        emit_queries(&mut out, v.as_bytes(), &mut r, QuerySel { all_lines: false, both_files: false, ..q });
                    }
                }
            }
            corpus_queries(&mut out, &mut r, QuerySel { class: false, method: false, lines: true, params: false, all_lines: false, both_files: false }, b.thorough);
        }
        "C02" => {
            let b = budget(tier, 100, 3000);
            for i in 0..b.mappings {
                let m = if i % 5 == 4 {
                    { let g = gen_mapping(&mut r, &REP); String::from_utf8_lossy(&mutate(&mut r, &g)).to_string() }
                } else {
                    gen_mapping(&mut r, &REP)
                };
                if !representable(m.as_bytes()) {
                    continue;
                }
                push_mapping(&mut out, m.as_bytes());
                let q = QuerySel { class: true, method: true, lines: true, params: true, all_lines: false, both_files: false };
                emit_queries(&mut out, m.as_bytes(), &mut r, q);
                emit_text_queries(&mut out, m.as_bytes(), &mut r, 2, 2, 3);
            }
            corpus_queries(&mut out, &mut r, QuerySel { class: true, method: true, lines: true, params: true, all_lines: false, both_files: false }, b.thorough);
        }
        "C03" => {
            let b = budget(tier, 200, 6000);
            for _ in 0..b.mappings {
                let m = gen_mapping(&mut r, &REP);
                if !representable(m.as_bytes()) {
                    continue;
                }
                push_mapping(&mut out, m.as_bytes());
                let q = QuerySel { class: false, method: false, lines: false, params: true, all_lines: false, both_files: false };
                emit_queries(&mut out, m.as_bytes(), &mut r, q);
            }
            corpus_queries(&mut out, &mut r, QuerySel { class: false, method: false, lines: false, params: true, all_lines: false, both_files: false }, b.thorough);
        }
        "C04" => {
            let b = budget(tier, 200, 6000);
            for i in 0..b.mappings {
                let o = GenOpts { dom: Dom::Representable, max_classes: if i % 10 == 0 { 150 } else { 8 }, noise: true };
                let m = gen_mapping(&mut r, &o);
                if !representable(m.as_bytes()) {
                    continue;
                }
                push_mapping(&mut out, m.as_bytes());
                let q = QuerySel { class: true, method: true, lines: false, params: false, all_lines: false, both_files: false };
                emit_queries(&mut out, m.as_bytes(), &mut r, q);
                // consistency clause: method lookup vs line based frames
                if i % 4 == 1 {
                    let q = QuerySel { class: false, method: false, lines: true, params: false, all_lines: false, both_files: false };
                    emit_queries(&mut out, m.as_bytes(), &mut r, q);
                }
            }
            corpus_queries(&mut out, &mut r, QuerySel { class: true, method: true, lines: false, params: false, all_lines: false, both_files: false }, b.thorough);
        }
        "C06" | "C13P" => {
            let b = budget(tier, 3000, 200000);
            for i in 0..b.mappings {
                let bytes = match i % 5 {
                    0 => gen_mapping(&mut r, &WILD).into_bytes(),
                    1 | 2 => { let g = gen_mapping(&mut r, &WILD); mutate(&mut r, &g) }
                    3 => soup(&mut r),
                    _ => raw_bytes(&mut r),
                };
                push_mapping(&mut out, &bytes);
                out.push("I".into());
            }
        }
        "C19" => {
            let b = budget(tier, 1500, 60000);
            for i in 0..b.mappings {
                let bytes = match i % 6 {
                    0 => gen_mapping(&mut r, &WILD).into_bytes(),
                    1 => { let g = gen_mapping(&mut r, &WILD); mutate(&mut r, &g) }
                    2 => soup(&mut r),
                    _ => metadata_file(&mut r),
                };
                push_mapping(&mut out, &bytes);
                out.push("D".into());
            }
            for (_, bytes) in corpus_files() {
                push_mapping(&mut out, &bytes);
                out.push("D".into());
            }
        }
        _ => {}
    }
    out
}

/// is the mapping inside the representable domain of the cache (non-empty names and
/// sourceFile values, numbers < 2^32-1)?  Decided on the records the implementation yields.
pub fn representable(mapping: &[u8]) -> bool {
    use proguard::*;
    let items: Vec<_> = match guarded(|| ProguardMapping::new(mapping).iter().collect::<Vec<_>>()) {
        Some(v) => v,
        None => return false,
    };
    let small = |x: usize| x < u32::MAX as usize;
    for it in items {
        match it {
            Ok(ProguardRecord::Class { original, obfuscated }) => {
                if original.is_empty() || obfuscated.is_empty() {
                    return false;
                }
            }
            Ok(ProguardRecord::Header { key, value }) => {
                if key == "sourceFile" && value == Some("") {
                    return false;
                }
            }
            Ok(ProguardRecord::Method { original, obfuscated, original_class, line_mapping, .. }) => {
                if original.is_empty() || obfuscated.is_empty() || original_class == Some("") {
                    return false;
                }
                if let Some(lm) = line_mapping {
                    if !small(lm.startline) || !small(lm.endline) {
                        return false;
                    }
                    if !lm.original_startline.map_or(true, small) || !lm.original_endline.map_or(true, small) {
                        return false;
                    }
                }
            }
            _ => {}
        }
    }
    true
}

/// record-preserving rewrites of a mapping: other line terminators, blank and unparseable
/// lines in between (C01: the answer must not depend on them)
pub fn variants(r: &mut Rng, m: &str) -> Vec<String> {
    let lines: Vec<&str> = m.split(|c| c == '\n' || c == '\r').filter(|l| !l.is_empty()).collect();
    let mut v = Vec::new();
    for nl in ["\n", "\r\n", "\r"] {
        let mut s = String::new();
        for l in &lines {
            if r.chance(1, 6) {
                s.push_str(nl);
            }
            if r.chance(1, 8) {
                s.push_str("this line is not a record");
                s.push_str(nl);
            }
            s.push_str(l);
            s.push_str(nl);
        }
        v.push(s);
    }
    v
}

fn corpus_queries(out: &mut Vec<String>, r: &mut Rng, q: QuerySel, thorough: bool) {
    for (name, bytes) in corpus_files() {
        // the 2.3 MB R8 file only in the thorough tier
        if bytes.len() > 400_000 && !thorough {
            continue;
        }
        let _ = name;
        push_mapping(out, &bytes);
        let mut qs = Vec::new();
        emit_queries(&mut qs, &bytes, r, q);
        // sample: corpus files have thousands of methods
        let cap = if thorough { 20000 } else { 1500 };
        if qs.len() > cap {
            let step = qs.len() / cap + 1;
            let off = r.below(step);
            qs = qs.into_iter().skip(off).step_by(step).collect();
        }
        out.extend(qs);
    }
}

/// files for the metadata scans (C19): position dependent shapes
fn metadata_file(r: &mut Rng) -> Vec<u8> {
    let nl = *r.pick(&["\n", "\r\n"]);
    let mut s = String::new();
    let noise = match r.below(6) {
        0 => 49,
        1 => 50,
        2 => 51,
        3 => 48,
        _ => r.below(60),
    };
    let hdrs = ["# compiler: R8", "# compiler: D8", "# compiler_version: 1.2.3", "# compiler_version", "# min_api: 21", "# min_api: x", "# min_api: 4294967296", "# min_api: +7", "# min_api", "# compiler:", "# pg_map_id: abc"];
    for _ in 0..r.below(5) {
        s.push_str(*r.pick(&hdrs));
        s.push_str(nl);
    }
    let kind = r.below(4);
    for i in 0..noise {
        match kind {
            0 => s.push_str("noise"),
            1 => s.push_str(&format!("# c{}: v", i)),
            2 => s.push_str(&format!("    int f{} -> a", i)),
            _ => s.push_str(if i % 2 == 0 { "???" } else { "# x" }),
        }
        s.push_str(nl);
    }
    if r.chance(4, 5) {
        s.push_str("com.A -> a:");
        s.push_str(nl);
    }
    for _ in 0..r.below(3) {
        s.push_str("not a record");
        s.push_str(nl);
    }
    let unmapped = if r.chance(1, 4) { 200 + r.below(3000) } else { r.below(6) };
    for i in 0..unmapped {
        s.push_str(&format!("    void m{}() -> x{}", i % 7, nl));
    }
    if r.chance(1, 2) {
        s.push_str("oops");
        s.push_str(nl);
    }
    match r.below(5) {
        0 => s.push_str(&format!("    1:2:void last():3:4 -> z")), // last line, no newline
        1 => s.push_str(&format!("    1:2:void last():3:4 -> z{}", nl)),
        2 => s.push_str(&format!("    0:2:void zero() -> z{}", nl)),
        3 => s.push_str(&format!("    int field -> z{}", nl)),
        _ => {}
    }
    for _ in 0..r.below(3) {
        s.push_str(*r.pick(&hdrs));
        s.push_str(nl);
    }
    s.into_bytes()
}

/// text traces, typed traces and signatures over the universe of a mapping
pub fn emit_text_queries(out: &mut Vec<String>, mapping: &[u8], r: &mut Rng, n_text: usize, n_typed: usize, n_sig: usize) {
    let u = universe(mapping);
    for _ in 0..n_text {
        let t = crate::trace::gen_text(r, &u);
        out.push(format!("S {}", hex(t.as_bytes())));
    }
    for _ in 0..n_typed {
        let t = crate::trace::gen_canonical_trace(r, &u);
        out.push(format!("Y {}", hex(t.as_bytes())));
    }
    for _ in 0..n_sig {
        let s = crate::trace::gen_signature(r, &u);
        out.push(format!("G {}", hex(s.as_bytes())));
    }
}
