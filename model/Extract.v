(* Extract.v — extraction of the executable model for the correspondence check.
   ExtrOcamlBasic only: bool, option, unit, list, prod, sumbool, sumor map to the OCaml
   types; N / positive / nat stay Coq datatypes. *)
From Coq Require Import ExtrOcamlBasic.
From PG Require Import Base Mapping Spec Mapper CacheWriter CacheReader Stacktrace Java Metadata Sink Uuid Layout Domain PinnedModel.
Extraction Language OCaml.
Set Extraction AccessOpaque.
Extraction "model.ml"
  parse_dec print_dec lenN utf8_valid trim lines
  items try_parse recs ok_records
  Sline Sparams Sclass Smethod blocks
  build m_remap_class m_remap_method m_remap_frame_lines m_remap_frame_params
  write_struct ser write chunks header_words write_struct_pinned snapshot_write
  parse c_remap_class c_remap_method c_remap_frame_lines c_remap_frame_params read_string
  parse_throwable parse_frame print_frame print_throwable print_trace parse_trace
  remap_text remap_typed depth
  deobfuscate format_sig
  has_line_info is_valid summarize
  run_sink mapping_uuid layout_ok dom32 sizes_ok
  lex_cmp parse_uint is_numeric binary_search leb128 leb_read stab_insert stab_bytes stab_empty.
