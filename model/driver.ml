(* driver.ml — glue between the case files and the extracted model (model.ml).
   Reads one operation per line on stdin, writes one canonical answer per line on stdout.
   Hand-written and trusted: hex decoding, int <-> N, printing. *)
open Model

let rec pos_of_int n =
  if n = 1 then XH else if n land 1 = 0 then XO (pos_of_int (n lsr 1)) else XI (pos_of_int (n lsr 1))
let n_of_int n = if n = 0 then N0 else Npos (pos_of_int n)
let tbl = Array.init 256 n_of_int
let rec int_of_pos = function XH -> 1 | XO p -> 2 * int_of_pos p | XI p -> 2 * int_of_pos p + 1
let int_of_n = function N0 -> 0 | Npos p -> int_of_pos p

let str_of_string (s : string) : n list = List.init (String.length s) (fun i -> tbl.(Char.code s.[i]))
let string_of_str (l : n list) : string =
  let b = Buffer.create 64 in
  List.iter (fun x -> Buffer.add_char b (Char.chr (int_of_n x))) l; Buffer.contents b
let hexdigit c = match c with
  | '0'..'9' -> Char.code c - 48 | 'a'..'f' -> Char.code c - 87 | _ -> failwith "hex"
(* hex strings carry a leading 'x' so that the empty string is a token *)
let str_of_hex (s : string) : n list =
  if String.length s = 0 || s.[0] <> 'x' then failwith ("bad hex token " ^ s);
  let n = (String.length s - 1) / 2 in
  List.init n (fun i -> tbl.(hexdigit s.[1 + 2*i] * 16 + hexdigit s.[2 + 2*i]))
let hex_of_str (l : n list) : string =
  let b = Buffer.create 64 in
  Buffer.add_char b 'x';
  List.iter (fun x -> Buffer.add_string b (Printf.sprintf "%02x" (int_of_n x))) l; Buffer.contents b
let ostr_of_tok s = if s = "~" then None else Some (str_of_hex s)
let tok_of_ostr = function None -> "~" | Some s -> hex_of_str s
let n_of_dec (s : string) : n =
  match parse_dec (str_of_string s) with Some v -> v | None -> failwith ("bad number " ^ s)
let dec_of_n (v : n) : string = string_of_str (print_dec v)
let on = function None -> "~" | Some v -> dec_of_n v
let b2s b = if b then "1" else "0"

let show_item = function
  | IErr l -> "E|" ^ hex_of_str l
  | IOk (RHeader (k, v)) -> "H|" ^ hex_of_str k ^ "|" ^ tok_of_ostr v
  | IOk (RClass (o, b)) -> "C|" ^ hex_of_str o ^ "|" ^ hex_of_str b
  | IOk (RField (t, o, b)) -> "F|" ^ hex_of_str t ^ "|" ^ hex_of_str o ^ "|" ^ hex_of_str b
  | IOk (RMethod (t, o, b, a, c, lm)) ->
    "M|" ^ hex_of_str t ^ "|" ^ hex_of_str o ^ "|" ^ hex_of_str b ^ "|" ^ hex_of_str a ^ "|" ^ tok_of_ostr c ^ "|" ^
    (match lm with None -> "~" | Some l -> dec_of_n l.lm_start ^ "," ^ dec_of_n l.lm_end ^ "," ^ on l.lm_os ^ "," ^ on l.lm_oe)

let show_frame (((c, m), f), l) = hex_of_str c ^ ":" ^ hex_of_str m ^ ":" ^ tok_of_ostr f ^ ":" ^ dec_of_n l
let show_frames fs = "[" ^ String.concat "," (List.map show_frame fs) ^ "]"
let show_oframes = function Ok fs -> show_frames fs | Panic -> "PANIC"
let show_pframes fs = "[" ^ String.concat "," (List.map (fun (c, m) -> hex_of_str c ^ ":" ^ hex_of_str m) fs) ^ "]"
let show_pair = function None -> "~" | Some (a, b) -> hex_of_str a ^ ":" ^ hex_of_str b
let show_cerr = function
  | WrongEndianness -> "WrongEndianness" | WrongFormat -> "WrongFormat" | WrongVersion -> "WrongVersion"
  | InvalidHeader -> "InvalidHeader" | InvalidClasses -> "InvalidClasses" | InvalidMembers -> "InvalidMembers"
  | UnexpectedStringBytes (e, f) -> "UnexpectedStringBytes(" ^ dec_of_n e ^ "," ^ dec_of_n f ^ ")"
let show_presult = function POk _ -> "ok" | PErr e -> show_cerr e

let rec nat_to_int = function O -> 0 | S k -> 1 + nat_to_int k
let rec nat_of_int n = if n = 0 then O else S (nat_of_int (n - 1))

type mstate = {
  bytes : n list;
  rs : record list Lazy.t;
  mp : (n list * class_mapping) list Lazy.t;     (* with parameter index *)
  mp0 : (n list * class_mapping) list Lazy.t;    (* without *)
  cbytes : n list Lazy.t;
  pc : presult Lazy.t;
}
let mk_mstate b =
  let rs = lazy (recs b) in
  let cbytes = lazy (write (Lazy.force rs)) in
  { bytes = b; rs;
    mp = lazy (build true (Lazy.force rs)); mp0 = lazy (build false (Lazy.force rs));
    cbytes; pc = lazy (parse (Lazy.force cbytes)) }

let cur : mstate ref = ref (mk_mstate [])
let xcache : presult ref = ref (PErr InvalidHeader)

let cache_of = function POk c -> Some c | PErr _ -> None

(* the model's cache writer keeps its string table as an association list (quadratic); for very large
   corpus files only the specification and the mapper model are evaluated *)
let big_limit = 30_000        (* reader model: read_string is linear in the string section *)
let big_limit_writer = 400_000 (* writer model: association-list string table *)
let is_big st = List.compare_length_with st.bytes big_limit > 0
let is_big_writer st = List.compare_length_with st.bytes big_limit_writer > 0
(* huge mappings (tens of thousands of classes / members): the mapper model builds association lists
   (quadratic), so only the specification answers; parameter queries (quadratic deduplication) are
   left to the implementation's own mapper = cache comparison *)
let huge_limit = 1_500_000
let is_huge st = List.compare_length_with st.bytes huge_limit > 0

(* answers of the model's cache reader on a parsed cache *)
let c_class pc name = match cache_of pc with None -> "noparse" | Some c -> tok_of_ostr (c_remap_class c name)
let c_method pc cl m = match cache_of pc with None -> "noparse" | Some c -> show_pair (c_remap_method c cl m)
let c_lines pc cl m line file = match cache_of pc with None -> "noparse" | Some c -> show_frames (c_remap_frame_lines c cl m line file)
let c_params pc cl m p = match cache_of pc with None -> "noparse" | Some c -> show_pframes (c_remap_frame_params c cl m p)
let c_text pc input = match cache_of pc with None -> "noparse" | Some c ->
  hex_of_str (remap_text (c_remap_class c) (fun cl m l f -> c_remap_frame_lines c cl m l f) input)
let show_sig = function
  | None -> "~"
  | Some (ps, r) -> "(" ^ String.concat "," (List.map hex_of_str ps) ^ ")" ^ hex_of_str r ^ "/" ^ hex_of_str (format_sig (ps, r))
let c_sig pc s = match cache_of pc with None -> "noparse" | Some c -> show_sig (deobfuscate (c_remap_class c) s)

let rec handle (line : string) : string =
  let toks = List.filter (fun t -> not (String.length t > 0 && t.[0] = '=')) (String.split_on_char ' ' line) in
  let st = !cur in
  match toks with
  | ["M"; h] -> cur := mk_mstate (str_of_hex h); "M"
  | ["DOM"] -> let rs = Lazy.force st.rs in "dom=" ^ b2s (dom32 rs && sizes_ok rs)
  | ["I"] -> String.concat ";" (List.map show_item (items st.bytes))
  | ["R"; h] -> show_item (try_parse (str_of_hex h))
  | ["D"] ->
    let s = summarize st.bytes in
    "hl=" ^ b2s (has_line_info st.bytes) ^ ";iv=" ^ b2s (is_valid st.bytes) ^
    ";sum=" ^ tok_of_ostr s.s_compiler ^ "," ^ tok_of_ostr s.s_version ^ "," ^ on s.s_min_api ^ "," ^
    dec_of_n s.s_classes ^ "," ^ dec_of_n s.s_methods
  | ["K"; c] ->
    let c = str_of_hex c in
    "s=" ^ tok_of_ostr (sclass (Lazy.force st.rs) c) ^
    ";m=" ^ (if is_huge st then "SKIPPED" else tok_of_ostr (m_remap_class (Lazy.force st.mp) c)) ^
    ";c=" ^ (if is_big st then "SKIPPED" else c_class (Lazy.force st.pc) c)
  | ["T"; c; m] ->
    let c = str_of_hex c and m = str_of_hex m in
    "s=" ^ show_pair (smethod (Lazy.force st.rs) c m) ^
    ";m=" ^ (if is_huge st then "SKIPPED" else show_pair (m_remap_method (Lazy.force st.mp) c m)) ^
    ";c=" ^ (if is_big st then "SKIPPED" else c_method (Lazy.force st.pc) c m)
  | ["L"; c; m; l; f] ->
    let c = str_of_hex c and m = str_of_hex m and l = n_of_dec l and f = ostr_of_tok f in
    "s=" ^ show_frames (sline (Lazy.force st.rs) c m l f) ^
    ";m=" ^ (if is_huge st then "SKIPPED" else show_oframes (m_remap_frame_lines (Lazy.force st.mp) c m l f)) ^
    ";n=" ^ (if is_huge st then "SKIPPED" else show_oframes (m_remap_frame_lines (Lazy.force st.mp0) c m l f)) ^
    ";c=" ^ (if is_big st then "SKIPPED" else c_lines (Lazy.force st.pc) c m l f)
  | ["P"; c; m; p] ->
    let c = str_of_hex c and m = str_of_hex m and p = str_of_hex p in
    if is_huge st then "s=SKIPPED;m=SKIPPED;c=SKIPPED" else
    "s=" ^ show_pframes (sparams (Lazy.force st.rs) c m p) ^
    ";m=" ^ show_pframes (m_remap_frame_params (Lazy.force st.mp) c m p) ^
    ";c=" ^ (if is_big st then "SKIPPED" else c_params (Lazy.force st.pc) c m p)
  | ["S"; t] ->
    let t = str_of_hex t in
    let rs = Lazy.force st.rs in
    "s=" ^ hex_of_str (remap_text (sclass rs) (fun c m l f -> sline rs c m l f) t) ^
    ";c=" ^ (if is_big st then "SKIPPED" else c_text (Lazy.force st.pc) t)
  | ["Y"; t] ->
    let t = str_of_hex t in
    let rs = Lazy.force st.rs in
    (match parse_trace t with
     | None -> "none"
     | Some tr ->
       let r = remap_typed (sclass rs) (fun c m l f -> sline rs c m l f) tr in
       "d=" ^ string_of_int (nat_to_int (depth tr)) ^ ";p=" ^ hex_of_str (print_trace tr) ^
       ";s=" ^ string_of_int (nat_to_int (depth r)) ^ "/" ^ hex_of_str (print_trace r) ^
       ";x=" ^ hex_of_str (remap_text (sclass rs) (fun c m l f -> sline rs c m l f) (print_trace tr)))
  | ["G"; s] ->
    let s = str_of_hex s in
    let rs = Lazy.force st.rs in
    "s=" ^ show_sig (deobfuscate (sclass rs) s) ^ ";c=" ^ (if is_big st then "SKIPPED" else c_sig (Lazy.force st.pc) s)
  | ["W"] -> if is_big_writer st then "w=SKIPPED" else "w=" ^ hex_of_str (Lazy.force st.cbytes)
  | ["WP"] ->
    (* both releases' writers: the current model and the complete pinned writer (PinnedModel.v: F1, F2, F7) *)
    if is_big_writer st then "w=SKIPPED"
    else "w=" ^ hex_of_str (Lazy.force st.cbytes) ^ ";wp=" ^ hex_of_str (snapshot_write st.bytes)
  | ["NOP"] -> ""
  | ["X"; h] -> let r = parse (str_of_hex h) in xcache := r; "r=" ^ show_presult r
  | ["k"; c] -> "c=" ^ c_class !xcache (str_of_hex c)
  | ["t"; c; m] -> "c=" ^ c_method !xcache (str_of_hex c) (str_of_hex m)
  | ["l"; c; m; l; f] -> "c=" ^ c_lines !xcache (str_of_hex c) (str_of_hex m) (n_of_dec l) (ostr_of_tok f)
  | ["p"; c; m; p] -> "c=" ^ c_params !xcache (str_of_hex c) (str_of_hex m) (str_of_hex p)
  | ["s"; t] -> "c=" ^ c_text !xcache (str_of_hex t)
  | ["g"; s] -> "c=" ^ c_sig !xcache (str_of_hex s)
  | ["FR"; h] ->
    let b = str_of_hex h in   (* StackFrame::try_parse: from_utf8 first *)
    (match (if utf8_valid b then parse_frame b else None) with None -> "~" | Some f -> show_frame f)
  | ["TH"; h] ->
    let b = str_of_hex h in
    (match (if utf8_valid b then parse_throwable b else None) with None -> "~" | Some (c, m) -> hex_of_str c ^ ":" ^ tok_of_ostr m)
  | ["V"; h] -> "ok=" ^ b2s (layout_ok (str_of_hex h))
  | "U" :: _ -> "u=" ^ hex_of_str (mapping_uuid st.bytes)
  | ["US"; a; b] ->
    let a = int_of_string a and b = int_of_string b in
    let sub = List.filteri (fun i _ -> i >= a && i < b) st.bytes in
    let u = hex_of_str (mapping_uuid sub) in
    "u=" ^ u ^ ";again=" ^ u ^ ";parent_stable=1"
  | ("KI" | "TI" | "PI") :: _ -> "s=SKIPPED;m=SKIPPED;c=SKIPPED"
  | "LI" :: _ -> "s=SKIPPED;m=SKIPPED;n=SKIPPED;c=SKIPPED"
  | "SEC" :: _ -> "sec=1;parent=1"   (* a section is the mapping of its bytes: evaluated on the implementation against a fresh mapping *)
  | "YA" :: _ -> "SKIPPED"   (* typed trace built from constructors: the node-wise clause is evaluated on the implementation *)
  | "ZI" :: _ -> "SKIPPED"   (* implementation-only sink run on a very large mapping: the property's own clauses are evaluated on the implementation's answer *)
  | "Z" :: mx :: script ->
    let mx = n_of_dec (String.sub mx 4 (String.length mx - 4)) in
    let parse_resp t =
      match String.split_on_char ':' t with
      | [i; "I"] -> (n_of_dec i, Interrupted)
      | [i; "F"] -> (n_of_dec i, Fail)
      | [i; r] when String.length r > 1 && r.[0] = 'S' -> (n_of_dec i, Short (n_of_dec (String.sub r 1 (String.length r - 1))))
      | _ -> failwith ("bad sink token " ^ t) in
    let script = List.filter (fun t -> t <> "vec") script in   (* a gathering sink: write_all never gathers *)
    let sk = { sk_max = mx; sk_script = List.map parse_resp script } in
    let cs = chunks (write_struct (Lazy.force st.rs)) in
    let (r, fin) = run_sink sk cs in
    let canon = List.concat cs in
    let rec is_prefix a b = match a, b with [], _ -> true | x :: a', y :: b' -> x = y && is_prefix a' b' | _, [] -> false in
    "r=" ^ (match r with WOk -> "ok" | WErrZero -> "zero" | WErrFail -> "fail" | WOutOfFuel -> "OUTOFFUEL") ^
    ";n=" ^ string_of_int (List.length fin.ss_acc) ^ ";calls=" ^ dec_of_n fin.ss_calls ^
    ";pfx=" ^ b2s (is_prefix fin.ss_acc canon) ^ ";full=" ^ b2s (fin.ss_acc = canon) ^
    ";h=" ^ hex_of_str fin.ss_acc
  | [("E6" | "E5") as kind; blk] ->
    let alpha, maxlen =
      if kind = "E6" then [| "a"; " "; "-"; ">"; ":"; "#"; "\n"; "\r"; "1" |], 7
      else [| "    "; "a"; "b.c"; " "; " -> "; ":"; "("; ")"; "1"; "#"; "x:"; "\n" |], 6 in
    let k = Array.length alpha in
    let rec pow b e = if e = 0 then 1 else b * pow b (e - 1) in
    let sweep_string idx =
      let idx = ref idx and len = ref 0 and res = ref None and fin = ref false in
      while not !fin do
        if !len > maxlen then fin := true
        else begin
          let n = pow k !len in
          if !idx < n then begin
            let digits = Array.make !len 0 in
            let x = ref !idx in
            for i = !len - 1 downto 0 do digits.(i) <- !x mod k; x := !x / k done;
            res := Some (String.concat "" (Array.to_list (Array.map (fun d -> alpha.(d)) digits)));
            fin := true
          end else begin idx := !idx - n; incr len end
        end
      done; !res in
    let h = ref 0xcbf29ce484222325L in
    let fnv s = String.iter (fun c -> h := Int64.mul (Int64.logxor !h (Int64.of_int (Char.code c))) 0x100000001b3L) s in
    let blk = int_of_string blk in
    let n = ref 0 in
    (try
      for idx = blk * 4096 to (blk + 1) * 4096 - 1 do
        match sweep_string idx with
        | None -> raise Exit
        | Some s ->
          let b = str_of_string s in
          let line = if kind = "E6" then String.concat ";" (List.map show_item (items b)) else show_item (try_parse b) in
          fnv line; fnv "\n"; incr n
      done
    with Exit -> ());
    Printf.sprintf "dg=%016Lx;n=%d" !h !n
  | ["E1"; blk] ->
    let alpha = [| "a.A -> x:\n"; "b.B -> y:\n"; "a.C -> x:\n"; "    1:3:void m():10:12 -> f\n"; "    1:3:void n():20 -> f\n";
                   "    4:6:void m(int) -> f\n"; "    void p(int) -> f\n"; "    2:5:void q.Q.r():7:7 -> g\n"; "    int fld -> f\n";
                   "# {\"id\":\"sourceFile\",\"fileName\":\"S.kt\"}\n"; "garbage\n"; "    5:4:void inv() -> g\n"; "    # {\"id\":\"x\"}\n" |] in
    let maxlen = 5 and k = 13 in
    let rec pow b e = if e = 0 then 1 else b * pow b (e - 1) in
    let sweep_string idx =
      let idx = ref idx and len = ref 0 and res = ref None and fin = ref false in
      while not !fin do
        if !len > maxlen then fin := true
        else begin
          let n = pow k !len in
          if !idx < n then begin
            let digits = Array.make !len 0 in
            let x = ref !idx in
            for i = !len - 1 downto 0 do digits.(i) <- !x mod k; x := !x / k done;
            res := Some (String.concat "" (Array.to_list (Array.map (fun d -> alpha.(d)) digits)));
            fin := true
          end else begin idx := !idx - n; incr len end
        end
      done; !res in
    let hx s = hex_of_str (str_of_string s) in
    let queries =
      List.map (fun c -> "K " ^ hx c) ["x"; "y"; "z"] @
      List.map (fun (c, m) -> "T " ^ hx c ^ " " ^ hx m) [("x", "f"); ("x", "g"); ("y", "f"); ("y", "g")] @
      List.map (fun l -> "L " ^ hx "x" ^ " " ^ hx "f" ^ " " ^ string_of_int l ^ " ~") [0; 1; 2; 3; 4; 5; 6; 7] @
      List.map (fun l -> "L " ^ hx "x" ^ " " ^ hx "g" ^ " " ^ string_of_int l ^ " " ^ hx "F.java") [0; 2; 4; 5; 6] @
      List.map (fun (c, m, l) -> "L " ^ hx c ^ " " ^ hx m ^ " " ^ string_of_int l ^ " ~") [("y", "f", 2); ("y", "g", 4); ("y", "f", 0); ("z", "f", 1)] @
      List.map (fun (c, m, p) -> "P " ^ hx c ^ " " ^ hx m ^ " " ^ hx p) [("x", "f", ""); ("x", "f", "int"); ("x", "g", ""); ("y", "f", "int"); ("y", "f", "")] @
      ["W"] in
    let h = ref 0xcbf29ce484222325L in
    let fnv s = String.iter (fun c -> h := Int64.mul (Int64.logxor !h (Int64.of_int (Char.code c))) 0x100000001b3L) s in
    let blk = int_of_string blk in
    let n = ref 0 in
    let saved = !cur in
    (try
      for idx = blk * 512 to (blk + 1) * 512 - 1 do
        match sweep_string idx with
        | None -> raise Exit
        | Some s ->
          cur := mk_mstate (str_of_string s);
          List.iter (fun q ->
            let a = handle q in
            (* specification, mapper model (both index modes) and cache model must agree; the common answer is digested *)
            let vals = List.filter_map (fun p -> match String.index_opt p '=' with
                                                 | Some i -> Some (String.sub p (i + 1) (String.length p - i - 1)) | None -> None)
                         (String.split_on_char ';' a) in
            let canon = match vals with
              | v :: rest when List.for_all (fun w -> w = v) rest -> v
              | _ -> "!!" ^ a in
            fnv canon; fnv "\n") queries;
          incr n
      done
    with Exit -> ());
    cur := saved;
    Printf.sprintf "dg=%016Lx;n=%d" !h !n
  | ["HU"; h] -> b2s (utf8_valid (str_of_hex h))
  | ["HT"; h] -> let b = str_of_hex h in if utf8_valid b then hex_of_str (trim b) else "~"
  | ["HL"; h] -> let b = str_of_hex h in if utf8_valid b then String.concat "," (List.map hex_of_str (lines b)) else "~"
  | ["HC"; a; b] -> (match lex_cmp (str_of_hex a) (str_of_hex b) with Lt -> "Less" | Eq -> "Equal" | Gt -> "Greater")
  | ["HP"; h] ->
    let b = str_of_hex h in
    if utf8_valid b then on (parse_uint u64 b) ^ ";" ^ on (parse_uint u32 b) else "~;~"
  | ["HN"; h] -> String.concat "" (List.map (fun x -> b2s (is_numeric x)) (str_of_hex h))
  | ["HB"; t; l] ->
    let target = (match str_of_hex t with x :: _ -> x | [] -> N0) in
    let l = str_of_hex l in
    (match binary_search (fun x -> N.compare x target) N0 l with
     | Some i -> "Some(" ^ string_of_int (nat_to_int i) ^ ")" | None -> "None")
  | ["HE"; v] -> hex_of_str (leb128 (n_of_dec v))
  | ["HD"; h] ->
    (match leb_read (nat_of_int 11) N0 N0 (str_of_hex h) with
     | Some (v, r) -> dec_of_n v ^ ";" ^ hex_of_str r | None -> "~")
  | "HW" :: strs ->
    let (t, offs) = List.fold_left (fun (t, acc) h -> let (t', o) = stab_insert t (str_of_hex h) in (t', acc @ [o])) (stab_empty, []) strs in
    let bytes = stab_bytes t in
    String.concat "," (List.map dec_of_n offs) ^ ";" ^ hex_of_str bytes ^ ";" ^
    String.concat "," (List.map (fun o -> tok_of_ostr (read_string bytes o)) offs)
  | "A" :: toks ->
    (* a trace AST: e:<cls>:<msg|~>  f:<cls>:<meth>:<file>:<line>  c (start of the cause) *)
    let parse_node toks =
      (* returns (exc, frames, rest-after-this-node) *)
      let exc = ref None and frames = ref [] and rest = ref toks in
      let continue = ref true in
      while !continue do
        match !rest with
        | [] -> continue := false
        | "c" :: _ -> continue := false
        | t :: tl ->
          (match String.split_on_char ':' t with
           | ["e"; c; m] -> exc := Some (str_of_hex c, ostr_of_tok m)
           | ["f"; c; m; f; l] -> frames := (((str_of_hex c, str_of_hex m), Some (str_of_hex f)), n_of_dec l) :: !frames
           | _ -> failwith ("bad trace token " ^ t));
          rest := tl
      done;
      (!exc, List.rev !frames, !rest) in
    let rec build toks =
      let (e, fs, rest) = parse_node toks in
      match rest with
      | "c" :: tl -> Trace (e, fs, Some (build tl))
      | _ -> Trace (e, fs, None) in
    let t = build toks in
    let text = print_trace t in
    let back = parse_trace text in
    "p=" ^ hex_of_str text ^ ";rt=" ^ b2s (back = Some t) ^
    ";rp=" ^ b2s (match back with Some t' -> print_trace t' = text | None -> false)
  | [] | [""] -> ""
  | op :: _ -> "UNKNOWN-OP " ^ op

let () =
  try
    while true do
      let line = input_line stdin in
      let out = try handle line with Stack_overflow -> "MODEL-STACK-OVERFLOW" | Failure m -> "MODEL-FAILURE " ^ m in
      print_string out; print_newline ()
    done
  with End_of_file -> ()
